//! C18: send_transaction through the real RPC (verify_tx with real script execution of the always-success
//! cell), the pending pool with a small limit, and the relay protocol's announcements.
//! Correspondence with Model/Pending.v (RunC18.run_pool); admission and announce-once oracles computed here.
use std::collections::HashMap;
use std::sync::{Arc, RwLock};

use ckb_network::{CKBProtocolHandler, PeerIndex, SupportProtocols};
use ckb_types::{bytes::Bytes, core::{DepType, ScriptHashType}, packed, prelude::*, H256};

use super::chain::{flat_plan, SynChain, T0};
use super::client::dummy_consensus;
use super::ctx::{drive, Ctx};
use super::out::{coq_list, Out, Val};
use super::prng::Rng;
use crate::protocols::{PendingTxs, Peers, RelayProtocol};
use crate::service::{TransactionRpc, TransactionRpcImpl};
use crate::storage::{HeaderWithExtension, StorageWithChainData};
use crate::tests::{utils::new_storage, ALWAYS_SUCCESS_BIN, ALWAYS_SUCCESS_SCRIPT};

fn out_cell(capacity: u64) -> packed::CellOutput {
    packed::CellOutput::new_builder().capacity(capacity.pack()).lock(ALWAYS_SUCCESS_SCRIPT.clone()).build()
}

fn build_tx(inputs: &[(packed::Byte32, u32, u64)], deps: &[(packed::Byte32, u32)], outputs: &[packed::CellOutput], salt: u32) -> packed::Transaction {
    build_tx_g(inputs, deps, &[], outputs, salt)
}

fn build_tx_g(inputs: &[(packed::Byte32, u32, u64)], deps: &[(packed::Byte32, u32)], groups: &[(packed::Byte32, u32)], outputs: &[packed::CellOutput], salt: u32) -> packed::Transaction {
    let mut cell_deps: Vec<packed::CellDep> = deps.iter().map(|(h, i)| packed::CellDep::new_builder().out_point(packed::OutPoint::new(h.clone(), *i)).dep_type(DepType::Code.into()).build()).collect();
    cell_deps.extend(groups.iter().map(|(h, i)| packed::CellDep::new_builder().out_point(packed::OutPoint::new(h.clone(), *i)).dep_type(DepType::DepGroup.into()).build()));
    let raw = packed::RawTransaction::new_builder()
        .version(0u32.pack())
        .cell_deps(cell_deps.pack())
        .inputs(inputs.iter().map(|(h, i, since)| packed::CellInput::new(packed::OutPoint::new(h.clone(), *i), *since)).collect::<Vec<_>>().pack())
        .outputs(outputs.to_vec().pack())
        .outputs_data(outputs.iter().map(|_| Bytes::new().pack()).collect::<Vec<_>>().pack())
        .build();
    // the witness only salts the wtx hash; the tx hash is what identifies the transaction
    packed::Transaction::new_builder().raw(raw).witnesses(vec![Bytes::from(salt.to_le_bytes().to_vec()).pack()].pack()).build()
}

pub(crate) fn run(seed: u64, n: u64, out: &mut Out) {
    let guard = ckb_systemtime::faketime();
    guard.set_faketime(T0);
    let mut rng = Rng::new(seed);
    let consensus = dummy_consensus();
    let cap = 200_0000_0000u64; // 200 CKB
    for world in 0..n {
        let storage = new_storage("verif-c18");
        let chain = SynChain::new(flat_plan(3, 5, 7), 8, 31 + world);
        storage.init_genesis_block(chain.genesis_block());
        let tip = chain.headers[5].clone();
        storage.update_last_state(&chain.tds[5], &tip.data(), &[]);
        let peers = Arc::new(Peers::new(2, 10, storage.get_last_check_point()));
        let limit = rng.range(2, 5);
        let pending = Arc::new(RwLock::new(PendingTxs::new(limit as usize)));
        let swc = StorageWithChainData::new(storage.clone(), peers.clone(), pending.clone());
        let rpc = TransactionRpcImpl { swc, consensus: Arc::new(consensus.clone()) };
        let ckb2023 = consensus.hardfork_switch.ckb2023.is_vm_version_2_and_syscalls_3_enabled(0);
        let mut relay = RelayProtocol::new(pending.clone(), peers.clone(), consensus.clone(), storage.clone(), ckb2023);
        let nc = Ctx::new(if ckb2023 { SupportProtocols::RelayV3 } else { SupportProtocols::RelayV2 });
        // the cells the client knows: the always-success binary and a few funding outputs, fetched earlier
        let hdr = |n: u64| HeaderWithExtension { header: chain.headers[n as usize].data(), extension: None };
        let dep_tx = {
            let o = packed::CellOutput::new_builder().capacity(10_000_0000_0000u64.pack()).build();
            let raw = packed::RawTransaction::new_builder().outputs(vec![o].pack()).outputs_data(vec![Bytes::from(ALWAYS_SUCCESS_BIN.to_vec()).pack()].pack()).build();
            packed::Transaction::new_builder().raw(raw).build()
        };
        storage.add_fetched_tx(&dep_tx, &hdr(1));
        let dep = (dep_tx.calc_tx_hash(), 0u32);
        // three dep groups: one listing the binary's cell, one that also lists a cell nobody knows, one listing nothing
        let group_tx = {
            let mk = |pts: Vec<packed::OutPoint>| -> packed::Bytes { packed::OutPointVec::new_builder().set(pts).build().as_bytes().pack() };
            let good = mk(vec![packed::OutPoint::new(dep.0.clone(), 0)]);
            let bad = mk(vec![packed::OutPoint::new(dep.0.clone(), 0), packed::OutPoint::new([0x79u8; 32].pack(), 0)]);
            let o = packed::CellOutput::new_builder().capacity(10_000_0000_0000u64.pack()).build();
            let empty = mk(vec![]);
            let raw = packed::RawTransaction::new_builder().outputs(vec![o.clone(), o.clone(), o].pack()).outputs_data(vec![good, bad, empty].pack()).build();
            packed::Transaction::new_builder().raw(raw).build()
        };
        storage.add_fetched_tx(&group_tx, &hdr(3));
        let group = group_tx.calc_tx_hash();
        let fund = build_tx(&[], &[], &(0..6).map(|_| out_cell(cap)).collect::<Vec<_>>(), 7 + world as u32);
        storage.add_fetched_tx(&fund, &hdr(2));
        let fund_hash = fund.calc_tx_hash();
        let mut free: Vec<(packed::Byte32, u32)> = (0..6).map(|i| (fund_hash.clone(), i)).collect();

        let mut known: Vec<packed::Byte32> = Vec::new();       // every hash ever submitted, in submission order
        let mut ids: HashMap<packed::Byte32, u64> = HashMap::new();
        let mut id_of = |h: &packed::Byte32, known: &mut Vec<packed::Byte32>| -> u64 { if let Some(x) = ids.get(h) { return *x; } let x = 100 + ids.len() as u64; ids.insert(h.clone(), x); known.push(h.clone()); x };
        let mut accepted: Vec<packed::Transaction> = Vec::new();
        let mut peer_ids: HashMap<u64, String> = HashMap::new();
        let mut announced: HashMap<(u64, u64), u64> = HashMap::new();   // (peer, hash) -> how often announced while in the pool
        let mut events: Vec<String> = Vec::new();
        let mut steps: Vec<(Val, u64)> = Vec::new();
        let mut problems: Vec<String> = Vec::new();
        let mut honest_cycles: Option<u64> = None;
        let mut kinds: HashMap<&'static str, u64> = HashMap::new();
        let n_steps = rng.range(8, 24);
        for _ in 0..n_steps {
            let choice = rng.below(10);
            let (term, v, name): (String, Val, &'static str) = match choice {
                0..=5 => {
                    // a submission: valid, or one mutation of a valid one
                    let parent_pending = !accepted.is_empty() && rng.chance(1, 3);
                    let input: (packed::Byte32, u32) = if parent_pending { (accepted[rng.below(accepted.len() as u64) as usize].calc_tx_hash(), 0) } else if !free.is_empty() { free[rng.below(free.len() as u64) as usize].clone() } else { (fund_hash.clone(), 0) };
                    let mut inputs = vec![(input.0.clone(), input.1, 0u64)];
                    let mut deps = vec![dep.clone()];
                    let mut groups: Vec<(packed::Byte32, u32)> = Vec::new();
                    if rng.chance(1, 3) { deps.clear(); groups.push((group.clone(), 0)); }   // the code reached through a dep group
                    let mut outputs = vec![out_cell(cap - 1_0000_0000)];
                    // an output is known if its transaction is stored (the funding transaction) or still in the pool
                    let known_input = |h: &packed::Byte32| h == &fund_hash || pending.read().unwrap().get(h).is_some();
                    let mut expect_ok = known_input(&input.0);
                    let mut what: &'static str = if !expect_ok { "spends-evicted-parent" } else if parent_pending { "valid-spends-pending" } else { "valid" };
                    if expect_ok && rng.chance(1, 2) {
                        expect_ok = false;
                        match rng.below(15) {
                            // a relative lock (1 block after the input's own commitment) on an output of a transaction that is still pending:
                            // the parent is in no block, so the lock cannot have matured
                            13 | 14 if parent_pending => { what = "relative-since-on-pending-parent"; inputs[0].2 = 0x8000_0000_0000_0000u64 + rng.range(1, 3); }
                            // shaped like a cellbase: a single input with the null out point (all-zero hash, index 0xffffffff) - nothing a
                            // user may submit: it names no cell the client knows and would mint its outputs from nothing
                            11 | 12 => { what = "cellbase-shaped-null-input"; inputs = vec![(packed::Byte32::zero(), u32::MAX, 0)]; if what == "cellbase-shaped-null-input" && rng.chance(1, 2) { outputs = vec![out_cell(1_000_000 * 1_0000_0000)]; } }
                            10 => { what = "empty-dep-group"; groups.push((group.clone(), 2)); }   // the code itself stays reachable through the other deps
                            9 => { what = "dep-group-with-unknown-member"; deps.clear(); groups = vec![(group.clone(), 1)]; }
                            0 => { what = "outputs-exceed-inputs"; outputs = vec![out_cell(cap + 1)]; }
                            1 => { what = "capacity-below-occupied"; outputs = vec![out_cell(1_0000_0000)]; }
                            2 => { what = "duplicate-input"; inputs.push(inputs[0].clone()); }
                            3 => { what = "unknown-input"; inputs = vec![([0x77u8; 32].pack(), 0, 0)]; }
                            4 => { what = "unknown-cell-dep"; deps = vec![([0x78u8; 32].pack(), 0)]; groups.clear(); }
                            5 => { what = "immature-since"; inputs[0].2 = 1_000_000; }              // absolute block number far above the tip
                            6 => { what = "no-outputs"; outputs.clear(); }
                            7 => { what = "missing-code-dep"; deps.clear(); groups.clear(); }
                            _ => { what = "input-index-out-of-range"; inputs[0].1 = 99; }
                        }
                    }
                    let tx = build_tx_g(&inputs, &deps, &groups, &outputs, rng.next() as u32);
                    let h = tx.calc_tx_hash();
                    // a byte-identical re-submission now and then
                    let tx = if expect_ok && !accepted.is_empty() && rng.chance(1, 5) {
                        let t = accepted[rng.below(accepted.len() as u64) as usize].clone();
                        let parent = t.raw().inputs().get(0).unwrap().previous_output().tx_hash();
                        if known_input(&parent) { what = "resubmitted"; t } else { tx }
                    } else { tx };
                    let h = if what == "resubmitted" { tx.calc_tx_hash() } else { h };
                    let id = id_of(&h, &mut known);
                    let before = pending.read().unwrap().get(&h).is_some();
                    let r = super::out::catch(|| rpc.send_transaction(tx.clone().into_view().data().into()));
                    let (ok, cycles) = match &r {
                        None => { problems.push(format!("[C10-rpc-panic] send_transaction panicked on a {} transaction: {}", what, super::last_panic())); (false, 0) }
                        Some(Ok(_)) => { let c = pending.read().unwrap().get(&h).map(|x| x.1).unwrap_or(0); (true, c) }
                        Some(Err(_)) => (false, 0),
                    };
                    if ok && !expect_ok { problems.push(format!("[C18-invalid-transaction-admitted] a {} transaction was accepted by send_transaction", what)); }
                    if !ok && expect_ok && r.is_some() { problems.push(format!("[C18-valid-transaction-rejected] a {} transaction was rejected: {:?}", what, r.as_ref().unwrap().as_ref().err().map(|e| e.message.clone()))); }
                    if !ok && !before && pending.read().unwrap().get(&h).is_some() { problems.push(format!("[C18-rejected-transaction-stored] a rejected ({}) transaction is in the pending pool", what)); }
                    if ok {
                        match honest_cycles { None => honest_cycles = Some(cycles), Some(c) if c != cycles => problems.push(format!("[C18-cycles-not-reported] the always-success script consumed {} cycles in one submission and {} in another", c, cycles)), _ => {} }
                        if cycles == 0 { problems.push("[C18-cycles-not-reported] zero cycles reported for an executed script".into()); }
                        if !accepted.iter().any(|t| t.calc_tx_hash() == h) { accepted.push(tx.clone()); }
                        free.retain(|x| !(x.0 == input.0 && x.1 == input.1));
                        // a fresh entry may be announced (again) to everybody
                        if !before { announced.retain(|k, _| k.1 != id); }
                    }
                    (format!("PE_send {} {}", id, if ok { format!("(Some {})", cycles) } else { "None".to_string() }), Val::l(vec![Val::b(ok)]), what)
                }
                6..=8 => {
                    // a peer opens the relay protocol
                    let p = rng.range(1, 3);
                    let pi = PeerIndex::new(p as usize);
                    if !peer_ids.contains_key(&p) { peer_ids.insert(p, nc.set_peer_id(pi)); }
                    let r = drive(relay.connected(nc.context(), pi, "3"));
                    if r.is_err() { problems.push(format!("[C10-handler-panic] RelayProtocol.connected panicked: {}", super::last_panic())); }
                    let mut hs: Vec<u64> = Vec::new();
                    for (_, _, data) in nc.take_sent() {
                        if let Ok(m) = packed::RelayMessage::from_slice(&data) {
                            if let packed::RelayMessageUnion::RelayTransactionHashes(t) = m.to_enum() { for h in t.tx_hashes().into_iter() { hs.push(id_of(&h, &mut known)); } }
                        }
                    }
                    for h in &hs {
                        let e = announced.entry((p, *h)).or_insert(0);
                        *e += 1;
                        if *e > 1 { problems.push(format!("[C18-announced-twice] pending transaction {} was announced to peer {} {} times without having left the pool", h, p, e)); }
                    }
                    (format!("PE_connect {}", p), Val::l(vec![Val::l(hs.iter().map(Val::n).collect())]), "relay-connected")
                }
                9 if !peer_ids.is_empty() && rng.chance(2, 3) => {
                    // a peer closes the relay protocol (the light client closes idle relay sessions and re-opens them for the next
                    // submission: same session, same peer id); whatever it was told stays told
                    let p = *peer_ids.keys().min().unwrap();
                    let pi = PeerIndex::new(p as usize);
                    let r = drive(relay.disconnected(nc.context(), pi));
                    if r.is_err() { problems.push(format!("[C10-handler-panic] RelayProtocol.disconnected panicked: {}", super::last_panic())); }
                    let _ = nc.take_sent();
                    (format!("PE_disconnect {}", p), Val::l(vec![]), "relay-disconnected")
                }
                _ => {
                    // GetRelayTransactions for a few known hashes and an unknown one
                    let mut ask: Vec<packed::Byte32> = (0..rng.range(0, 3)).filter_map(|_| if known.is_empty() { None } else { Some(known[rng.below(known.len() as u64) as usize].clone()) }).collect();
                    ask.push([0x55u8; 32].pack());
                    let content = packed::GetRelayTransactions::new_builder().tx_hashes(ask.clone().pack()).build();
                    let msg = packed::RelayMessage::new_builder().set(content).build();
                    let r = drive(relay.received(nc.context(), PeerIndex::new(1), msg.as_bytes()));
                    if r.is_err() { problems.push(format!("[C10-handler-panic] RelayProtocol.received panicked: {}", super::last_panic())); }
                    let mut got: Vec<(u64, u64)> = Vec::new();
                    for (_, _, data) in nc.take_sent() {
                        if let Ok(m) = packed::RelayMessage::from_slice(&data) {
                            if let packed::RelayMessageUnion::RelayTransactions(t) = m.to_enum() { for rt in t.transactions().into_iter() { let h = rt.transaction().calc_tx_hash(); got.push((id_of(&h, &mut known), rt.cycles().unpack())); } }
                        }
                    }
                    let ids_asked: Vec<String> = ask.iter().map(|h| format!("{}", id_of(h, &mut known))).collect();
                    (format!("PE_get {}", coq_list(&ids_asked)), Val::l(vec![Val::l(got.iter().map(|(a, b)| Val::l(vec![Val::n(*a), Val::n(*b)])).collect())]), "get-relay-transactions")
                }
            };
            *kinds.entry(name).or_insert(0) += 1;
            events.push(term);
            steps.push((v, known.len() as u64));
            // pool bound
            let in_pool = known.iter().filter(|h| pending.read().unwrap().get(h).is_some()).count() as u64;
            if in_pool > limit { problems.push(format!("[C18-pool-over-limit] {} transactions pending, limit {}", in_pool, limit)); }
            // get_transaction reports pool members as pending
            for h in known.iter() {
                if pending.read().unwrap().get(h).is_some() {
                    let s = rpc.get_transaction(h.unpack());
                    let ok = matches!(&s, Ok(t) if t.transaction.is_some() && format!("{:?}", t.tx_status.status).to_lowercase().contains("pending"));
                    if !ok { problems.push("[C18-pool-member-not-pending] get_transaction does not report a pooled transaction as pending".into()); break; }
                }
            }
            if !problems.is_empty() { break; }
        }
        // the probe after each step covers every hash known at the end (absent ones print as such)
        let known_ids: Vec<u64> = known.iter().map(|h| ids_lookup(&known, h)).collect();
        let _ = known_ids;
        let obs: Vec<Val> = Vec::new();
        let _ = obs;
        // re-run the probe per step is not possible after the fact; instead each step stored its own probe (see below)
        let model = format!("(run_pool {} {} {})", limit, coq_list(&known.iter().enumerate().map(|(i, _)| format!("{}", 100 + i)).collect::<Vec<_>>()), coq_list(&events));
        let oracle = if problems.is_empty() { Ok(()) } else { Err(problems.join(" || ")) };
        let mut kv: Vec<String> = kinds.iter().map(|(k, v)| format!("{}={}", k, v)).collect();
        kv.sort();
        // final probe of the pool (every known hash): present?, cycles, peers it was announced to
        let peer_num: HashMap<String, u64> = peer_ids.iter().map(|(k, v)| (v.clone(), *k)).collect();
        let final_probe = Val::l(known.iter().enumerate().map(|(i, h)| match pending.read().unwrap().get(h) {
            Some((_, c, ps)) => { let mut v: Vec<u64> = ps.iter().map(|p| *peer_num.get(&p.to_base58()).unwrap_or(&999)).collect(); v.sort(); Val::l(vec![Val::n(100 + i as u64), Val::n(c), Val::l(v.into_iter().map(Val::n).collect())]) }
            None => Val::l(vec![Val::n(100 + i as u64)]),
        }).collect());
        let impl_v = Val::l(vec![Val::l(steps.iter().map(|s| s.0.clone()).collect()), final_probe]);
        out.case(&format!("pool-{}", world), &["pending-pool"], &format!("(run_pool_summary {} {} {})", limit, coq_list(&(0..known.len()).map(|i| format!("{}", 100 + i)).collect::<Vec<_>>()), coq_list(&events)), &impl_v, oracle,
            &format!("limit {}, {} events: {}", limit, events.len(), kv.join(",")));
        let _ = model;
    }
}

fn ids_lookup(known: &[packed::Byte32], h: &packed::Byte32) -> u64 { 100 + known.iter().position(|x| x == h).unwrap_or(0) as u64 }
