(* C17 — Concurrent RPC calls and protocol handlers behave like some serial order.
   Model: Model/Locks.v — an operation is the sequence of its database writes, split into the part made while the
   global lock (Peers.matched_blocks, write mode) is held and the part made after releasing it; the schedules of
   two concurrent operations are all merges that keep the two locked parts apart.

   - [C17_fully_locked_operations_serialize]: if both operations make all their writes under the lock, every
     schedule yields the store of one of the two serial orders.
   - [C17_commuting_tail_serializes]: writes made after releasing the lock do not matter if each of them commutes
     with every write of the other operation (the fork switch writes the tip and last-n headers after the
     rollback, outside the lock: those keys are written by no other operation considered here).
   What ties this to the code is observed by op c17 through the guarded hook: at every write of set_scripts,
   BlockFilters processing, SendBlock indexing and the fork switch the lock is probed (try_write), which gives
   each operation's locked / unlocked split; and every pair is run on two threads with the first paused at each
   of its write boundaries, the outcome compared with both serial outcomes, and progress of both threads
   checked (no deadlock).  Thread scheduling itself, the DashMap shards and RocksDB snapshots are not modelled
   (level: partial). *)
From Coq Require Import List.
From LC Require Import Locks LocksProofs.
Import ListNotations.

Theorem C17_fully_locked_operations_serialize :
  forall (S W : Type) (apply : S -> W -> S) (a b : lop W) (sched : list W) (s : S),
    unlocked W a = [] -> unlocked W b = [] -> schedule W a b sched ->
    run S W apply s sched = run S W apply s (writes W a ++ writes W b) \/
    run S W apply s sched = run S W apply s (writes W b ++ writes W a).
Proof. exact fully_locked_serial. Qed.
Print Assumptions C17_fully_locked_operations_serialize.

Theorem C17_commuting_tail_serializes :
  forall (S W : Type) (apply : S -> W -> S) (a b : lop W) (sched : list W) (s : S),
    (forall u w, In u (unlocked W a) -> In w (writes W b) -> commute S W apply u w) ->
    (forall u w, In u (unlocked W b) -> In w (writes W a) -> commute S W apply u w) ->
    schedule W a b sched ->
    run S W apply s sched = run S W apply s (writes W a ++ writes W b) \/
    run S W apply s sched = run S W apply s (writes W b ++ writes W a).
Proof. exact commuting_tail_serial. Qed.
Print Assumptions C17_commuting_tail_serializes.

(* a schedule that the lock forbids really differs from both serial orders: the theorem has content *)
Example C17_unlocked_interleaving_can_differ :
  let apply := fun (s : list nat) (w : nat) => s ++ [w] in
  run (list nat) nat apply [] [1; 3; 2; 4] <> run (list nat) nat apply [] ([1; 2] ++ [3; 4]) /\
  run (list nat) nat apply [] [1; 3; 2; 4] <> run (list nat) nat apply [] ([3; 4] ++ [1; 2]).
Proof. cbv. split; discriminate. Qed.
