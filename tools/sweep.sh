#!/bin/sh
# usage: tools/sweep.sh <seed>...   -- runs every claimed quick check with each seed, prints the ones that report anything
for seed in "$@"; do
  for p in C01 C02 C03 C04 C05 C06 C07 C08 C09 C10 C11 C12 C13 C14 C15 C16 C17 C18; do
    out=$(./vp check $p --seed $seed 2>&1); rc=$?
    line=$(echo "$out" | grep "tier=" | tail -1 | cut -c1-170)
    if [ $rc -ne 0 ]; then echo "seed $seed $p rc=$rc :: $line"; echo "$out" | grep VIOLATION | head -3; else echo "seed $seed $p ok :: $line"; fi
  done
done
