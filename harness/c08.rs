//! C08: a crash at every storage write.  A generated sync history is run once without a crash (counting the
//! writes of every operation through the guarded hook in storage.rs); then, for every operation and every
//! write boundary inside it, a fresh client re-runs the history up to that boundary, unwinds there, all in-memory
//! state is rebuilt from the store (as at process start), and syncing continues with honest peers until quiet.
//! Oracle: the store opens, nothing aborts, and the index of every registered script equals the chain up to the
//! number get_scripts reports, which must reach the height the crash-free run reaches.
use ckb_network::PeerIndex;
use ckb_types::{packed, prelude::*};

use super::c06::{indexed_cells, matched_records};
use super::chain::{flat_plan, T0};
use super::client::dummy_consensus;
use super::out::{catch, coq_list, Out, Val};
use super::prng::Rng;
use super::world::*;
use crate::protocols::light_client::constant::GET_IDLE_BLOCKS_TOKEN;
use crate::protocols::GET_BLOCK_FILTERS_TOKEN;
use crate::storage::{verif_hook, ScriptStatus, ScriptType, SetScriptsCommand, Storage};
use crate::tests::utils::new_storage;

#[derive(Clone, Debug)]
pub(crate) enum Op {
    Init,
    Prove { on_fork: bool, height: u64 },
    SetScripts { cmd: u8, list: Vec<(usize, bool, u64)> },
    Filters { batch: u64 },
    Download,
    Finalize,
}

impl Op {
    fn name(&self) -> &'static str {
        match self { Op::Init => "init", Op::Prove { on_fork: false, .. } => "tip-update", Op::Prove { on_fork: true, .. } => "fork-switch", Op::SetScripts { .. } => "set_scripts", Op::Filters { .. } => "filter-batch", Op::Download => "block-download", Op::Finalize => "check-point-finalization" }
    }
}

pub(crate) struct Plan { pub seed: u64, pub len: u64, pub fork_at: u64, pub ops: Vec<Op>, pub last_n: u64 }

pub(crate) struct World {
    pub net: Option<Net>,
    pub storage: Storage,
    pub main: BodyChain,
    pub fork: BodyChain,
    pub pool: Vec<packed::Script>,
    pub on_fork: bool,          // which branch the honest peer serves at the moment
    pub height: u64,            // the height it has announced
    pub peer: PeerIndex,
    pub consensus: ckb_chain_spec::consensus::Consensus,
    /// requests the client has sent and the peer has not answered yet
    pub inbox: Vec<(PeerIndex, Sent)>,
    pub last_n: u64,
    /// violations of the table invariant (Model/MatchedBlocks.v) seen after an operation
    pub table_problems: Vec<String>,
}

const INTERVAL: u64 = 10;
const LAST_N: u64 = 20; // larger than any gap of these worlds: the sampled regime (and the listed C05 finding at gap = last-N + 1) stays out of the way

pub(crate) fn build(plan: &Plan) -> World {
    let mut rng = Rng::new(plan.seed);
    let pool: Vec<packed::Script> = (1..=3u8).map(|i| pool_script(7, &[i])).collect();
    let mut gen = TxGen::new(pool.clone(), plan.seed * 1000, 2);
    // two blocks more than any height the plan mentions: after a restart the honest peer has moved on by one block
    let main = BodyChain::new(&mut rng, flat_plan(8, 8, 5), plan.len + 2, 1 + plan.seed, &mut gen);
    let fork = main.fork(&mut rng, plan.fork_at, plan.len - plan.fork_at + 9, 9_000 + plan.seed, pool.clone(), 1); // every block of the other branch touches pool scripts (the block at a rollback point in particular)
    let storage = new_storage("verif-c08");
    World { net: None, storage, main, fork, pool, on_fork: false, height: 0, peer: PeerIndex::new(1), consensus: dummy_consensus(), inbox: Vec::new(), last_n: plan.last_n, table_problems: Vec::new() }
}

impl World {
    pub(crate) fn chain(&self) -> &BodyChain { if self.on_fork { &self.fork } else { &self.main } }

    /// process start: everything in memory is rebuilt from the store
    pub(crate) fn start(&mut self) {
        let genesis = self.main.chain.genesis_block();
        self.net = Some(Net::over(self.storage.clone(), genesis, &self.consensus, self.last_n, 1, INTERVAL));
    }

    fn mock_hashes(&mut self) {
        let (fin, _) = self.storage.get_last_check_point();
        let base = fin as u64 * INTERVAL;
        let bc = if self.on_fork { &self.fork } else { &self.main };
        let hs: Vec<packed::Byte32> = ((base + 1)..=self.height.min(bc.tip())).map(|j| bc.fhashes[j as usize].clone()).collect();
        if let Some(net) = &self.net { net.peers.mock_latest_block_filter_hashes(self.peer, base, hs); }
    }

    /// answer every request the client sent, honestly, until it is quiet
    fn service(&mut self, first: Vec<(PeerIndex, Sent)>) {
        let mut queue = first;
        for _ in 0..200 {
            if queue.is_empty() { break; }
            let mut next = Vec::new();
            for (p, s) in queue {
                let bc = if self.on_fork { &self.fork } else { &self.main };
                let net = self.net.as_mut().unwrap();
                match s {
                    Sent::GetBlockFilters(start) => { if start <= self.height { let m = serve_block_filters(bc, start, 7); let mut m2 = m; if start + 7 > self.height + 1 { m2 = serve_block_filters_upto(bc, start, self.height); } next.extend(net.fp_recv(p, filters_message(m2)).sent); } }
                    Sent::GetBlocksProof(req) => { match serve_blocks_proof(&bc.chain, &req) { Some(resp) => next.extend(net.lc_recv(p, blocks_proof_message(resp)).sent), None => next.extend(net.lc_recv(p, blocks_proof_new_tip(&bc.chain, self.height.min(bc.tip()))).sent) } }
                    Sent::GetBlocks(hashes) => { for h in hashes { let other = if self.on_fork { &self.main } else { &self.fork }; /* a full node keeps the blocks of an abandoned branch and serves them by hash */ let blk = bc.chain.number_of(&h).map(|n| bc.chain.block(n)).or_else(|| other.chain.number_of(&h).map(|n| other.chain.block(n))); if let Some(b) = blk { next.extend(net.sp_recv(p, send_block_message(b)).sent); } } }
                    Sent::GetBlockFilterHashes(start) => { if start >= 1 && start <= self.height { next.extend(net.fp_recv(p, filter_hashes_message(bc, start, (start + 11).min(self.height))).sent); } }
                    Sent::GetBlockFilterCheckPoints(start) => { if start <= self.height { next.extend(net.fp_recv(p, check_points_message(bc, start, self.height, INTERVAL)).sent); } }
                    _ => {}
                }
            }
            queue = next;
        }
    }

    pub(crate) fn exec(&mut self, op: &Op) {
        self.exec_inner(op);
        if let Some(net) = self.net.as_ref() { if let Some(p) = super::c06::table_problem(net) { self.table_problems.push(format!("{} (after {})", p, op.name())); } }
    }

    fn exec_inner(&mut self, op: &Op) {
        if std::env::var("VERIF_DEBUG").is_ok() {
            eprintln!("DBG exec {:?}: min {} records {:?} tip {} inbox {:?}", op, self.storage.get_min_filtered_block_number(),
                self.net.as_ref().map(|n| matched_records(n).iter().map(|r| (r.0, r.1, r.2.iter().map(|x| (self.main.chain.number_of(&x.0), self.fork.chain.number_of(&x.0), x.1)).collect::<Vec<_>>())).collect::<Vec<_>>()),
                self.net.as_ref().map(|n| Unpack::<u64>::unpack(&n.storage.get_tip_header().raw().number())).unwrap_or(0), self.inbox.iter().map(|x| format!("{:?}", x.1).chars().take(60).collect::<String>()).collect::<Vec<_>>());
        }
        match op {
            Op::Init => { self.start(); }
            Op::Prove { on_fork, height } => {
                let before = (self.on_fork, self.height);
                self.on_fork = *on_fork;
                self.height = *height;
                let (chain, h) = { let bc = if self.on_fork { &self.fork } else { &self.main }; (bc.chain.headers.len(), (*height).min(bc.tip())) };
                let _ = chain;
                let peer = self.peer;
                let net = self.net.as_mut().unwrap();
                let bc = if *on_fork { &self.fork } else { &self.main };
                let proven = net.prove_peer(peer, &bc.chain, h);
                self.height = h;
                // the honest peer only serves what the client has accepted from it: if the announcement did not become the
                // client's tip (not heavier, or beyond what the client can verify), the world stays where it was
                let adopted = proven && net.storage.get_tip_header().calc_header_hash() == bc.chain.headers[h as usize].hash();
                if !adopted { self.on_fork = before.0; self.height = before.1; }
                self.mock_hashes();
            }
            Op::SetScripts { cmd, list } => {
                let statuses: Vec<ScriptStatus> = list.iter().map(|(sid, is_lock, start)| ScriptStatus { script: self.pool[*sid].clone(), script_type: if *is_lock { ScriptType::Lock } else { ScriptType::Type }, block_number: *start }).collect();
                let command = match cmd { 0 => SetScriptsCommand::All, 1 => SetScriptsCommand::Partial, _ => SetScriptsCommand::Delete };
                // service.rs set_scripts: the matched-blocks lock is held and the in-memory map cleared
                let net = self.net.as_mut().unwrap();
                let mut mb = net.peers.matched_blocks().write().expect("poisoned");
                net.storage.update_filter_scripts(statuses, command);
                mb.clear();
            }
            Op::Filters { batch } => {
                let start = self.storage.get_min_filtered_block_number() + 1;
                if start > self.height { return; }
                let end = (start + batch - 1).min(self.height);
                let m = { let bc = if self.on_fork { &self.fork } else { &self.main }; serve_block_filters_upto(bc, start, end) };
                let peer = self.peer;
                let net = self.net.as_mut().unwrap();
                // only the batch itself; what it triggers (proof / block requests) is answered by a later download step
                let r = net.fp_recv(peer, filters_message(m));
                self.inbox.extend(r.sent.into_iter().filter(|(_, s)| !matches!(s, Sent::GetBlockFilters(_))));
            }
            Op::Finalize => {
                // the peer reports its filter check points; the refresh tick finalizes what the quorum (one peer here) agrees on
                let peer = self.peer;
                let (fin, _) = self.storage.get_last_check_point();
                let m = { let bc = if self.on_fork { &self.fork } else { &self.main }; check_points_message(bc, fin as u64 * INTERVAL, self.height, INTERVAL) };
                let net = self.net.as_mut().unwrap();
                let _ = net.fp_recv(peer, m);
                let _ = net.lc_tick(crate::protocols::light_client::constant::REFRESH_PEERS_TOKEN);
                self.mock_hashes();
            }
            Op::Download => {
                // the peer first answers what it was asked before, then the periodic ticks re-request what is still open
                let first = std::mem::take(&mut self.inbox);
                self.service_downloads(first);
                let net = self.net.as_mut().unwrap();
                let r1 = net.fp_tick(GET_BLOCK_FILTERS_TOKEN);
                let r2 = net.lc_tick(GET_IDLE_BLOCKS_TOKEN);
                let mut all = r1.sent; all.extend(r2.sent);
                // downloads only: filter requests are not answered here
                let mut all: Vec<_> = all.into_iter().filter(|(_, s)| !matches!(s, Sent::GetBlockFilters(_))).collect();
                let mut first = std::mem::take(&mut self.inbox);
                first.append(&mut all);
                self.service_downloads(first);
            }
        }
    }

    fn service_downloads(&mut self, first: Vec<(PeerIndex, Sent)>) {
        let mut queue = first;
        for _ in 0..100 {
            if queue.is_empty() { break; }
            let mut next = Vec::new();
            for (p, s) in queue {
                let bc = if self.on_fork { &self.fork } else { &self.main };
                let net = self.net.as_mut().unwrap();
                match s {
                    Sent::GetBlocksProof(req) => { match serve_blocks_proof(&bc.chain, &req) { Some(resp) => next.extend(net.lc_recv(p, blocks_proof_message(resp)).sent), None => next.extend(net.lc_recv(p, blocks_proof_new_tip(&bc.chain, self.height.min(bc.tip()))).sent) } }
                    Sent::GetBlocks(hashes) => { for h in hashes { let other = if self.on_fork { &self.main } else { &self.fork }; /* a full node keeps the blocks of an abandoned branch and serves them by hash */ let blk = bc.chain.number_of(&h).map(|n| bc.chain.block(n)).or_else(|| other.chain.number_of(&h).map(|n| other.chain.block(n))); if let Some(b) = blk { next.extend(net.sp_recv(p, send_block_message(b)).sent); } } }
                    _ => {}
                }
            }
            queue = next.into_iter().filter(|(_, s)| !matches!(s, Sent::GetBlockFilters(_))).collect();
        }
    }

    /// continued syncing with the honest peer until nothing moves any more
    pub(crate) fn converge(&mut self) {
        if self.net.is_none() { self.start(); }
        // the chain has grown by one block in the meantime (a client cannot prove a peer whose tip it already stores)
        self.height = (self.height + 1).min(if self.on_fork { self.fork.tip() } else { self.main.tip() });
        let (peer, h, on_fork) = (self.peer, self.height, self.on_fork);
        {
            let net = self.net.as_mut().unwrap();
            let bc = if on_fork { &self.fork } else { &self.main };
            if h > 0 { net.prove_peer(peer, &bc.chain, h.min(bc.tip())); }
        }
        self.mock_hashes();
        // the honest peer answers whatever it was asked before
        let first = std::mem::take(&mut self.inbox);
        self.service(first);
        let mut last = (u64::MAX, 0usize);
        for _ in 0..40 {
            let sent = { let net = self.net.as_mut().unwrap(); let mut v = net.fp_tick(GET_BLOCK_FILTERS_TOKEN).sent; v.extend(net.fp_tick(1 /* GET_BLOCK_FILTER_HASHES_TOKEN */).sent); v.extend(net.lc_tick(GET_IDLE_BLOCKS_TOKEN).sent); v };
            self.service(sent);
            // FilterProtocol asks for filters at most every 15 s of wall-clock time; a fresh handler asks at once
            let now = (self.storage.get_min_filtered_block_number(), matched_records(self.net.as_ref().unwrap()).len());
            if std::env::var("VERIF_DEBUG").is_ok() { eprintln!("DBG proven {:?} fin {:?} tip {} height {} on_fork {} cached {:?}", self.net.as_ref().unwrap().peers.get_state(&self.peer).map(|s| s.get_prove_state().map(|p| p.get_last_header().header().number())), self.storage.get_last_check_point().0, Unpack::<u64>::unpack(&self.storage.get_tip_header().raw().number()), self.height, self.on_fork, { let c = self.net.as_ref().unwrap().peers.get_cached_block_filter_hashes(); (c.0, c.1.len()) }); }
            if std::env::var("VERIF_DEBUG").is_ok() { eprintln!("DBG converge: min {} records {:?} scripts {:?} mem {:?}", now.0, matched_records(self.net.as_ref().unwrap()).iter().map(|r| (r.0, r.1, r.2.iter().map(|x| x.1).collect::<Vec<_>>())).collect::<Vec<_>>(), self.storage.get_filter_scripts().iter().map(|s| s.block_number).collect::<Vec<_>>(), self.net.as_ref().unwrap().peers.matched_blocks().read().map(|m| m.values().map(|v| (v.0, v.1.is_some())).collect::<Vec<_>>()).ok()); }
            if now == last { break; }
            last = now;
            let genesis = self.main.chain.genesis_block();
            let _ = genesis;
            self.net.as_mut().unwrap().fp.last_ask_time.write().unwrap().take();
        }
    }
}

pub(crate) fn check_points_message(bc: &BodyChain, start: u64, height: u64, interval: u64) -> ckb_network::bytes::Bytes {
    let first = start - start % interval;
    let cps: Vec<packed::Byte32> = (0..).map(|k| first + k * interval).take_while(|n| *n <= height.min(bc.tip())).map(|n| bc.fhashes[n as usize].clone()).collect();
    let content = packed::BlockFilterCheckPoints::new_builder().start_number(first.pack()).block_filter_hashes(cps.pack()).build();
    packed::BlockFilterMessage::new_builder().set(content).build().as_bytes()
}

pub(crate) fn filter_hashes_message(bc: &BodyChain, start: u64, end: u64) -> ckb_network::bytes::Bytes {
    let hs: Vec<packed::Byte32> = (start..=end.min(bc.tip())).map(|n| bc.fhashes[n as usize].clone()).collect();
    let content = packed::BlockFilterHashes::new_builder().start_number(start.pack()).parent_block_filter_hash(bc.fhashes[start as usize - 1].clone()).block_filter_hashes(hs.pack()).build();
    packed::BlockFilterMessage::new_builder().set(content).build().as_bytes()
}

pub(crate) fn serve_block_filters_upto(bc: &BodyChain, start: u64, end: u64) -> packed::BlockFilters {
    let nums: Vec<u64> = if start > end { vec![] } else { (start..=end.min(bc.tip())).collect() };
    packed::BlockFilters::new_builder()
        .start_number(start.pack())
        .block_hashes(nums.iter().map(|n| bc.chain.headers[*n as usize].hash()).collect::<Vec<_>>().pack())
        .filters(nums.iter().map(|n| bc.filters[*n as usize].clone()).collect::<Vec<_>>().pack())
        .build()
}

/// the abstract store of Model/Crash.v read from the database: scripts, progress, pending records, indexed blocks
fn abstract_state(storage: &Storage, pool: &[packed::Script], number_of: &dyn Fn(&packed::Byte32) -> Option<u64>) -> Val {
    use rocksdb::{ops::Iterate, IteratorMode};
    let scripts: Vec<Val> = storage.get_filter_scripts().iter().map(|ss| {
        let sid = pool.iter().position(|s| s == &ss.script).unwrap_or(99) as u64;
        Val::l(vec![Val::n(sid * 2 + if ss.script_type == ScriptType::Lock { 0 } else { 1 }), Val::n(ss.block_number)])
    }).collect();
    let mut records: Vec<(u64, u64, Vec<u64>)> = Vec::new();
    let mut indexed: Vec<u64> = Vec::new();
    for (k, val) in storage.db.iterator(IteratorMode::Start) {
        if k[0] == 224 && k[1..].starts_with(b"MATCHED_BLOCKS") && k.len() == 1 + 14 + 8 {
            let start = u64::from_be_bytes(k[15..].try_into().unwrap());
            let count = u64::from_le_bytes(val[0..8].try_into().unwrap());
            let mut ms: Vec<u64> = val[8..].chunks(33).map(|c| number_of(&packed::Byte32::from_slice(&c[..32]).unwrap()).unwrap_or(999_999)).collect();
            ms.sort();
            records.push((start, count, ms));
        }
        if k[0] == 192 && k.len() == 9 { let n = u64::from_be_bytes(k[1..9].try_into().unwrap()); if n >= 1 { indexed.push(n); } }
    }
    records.sort();
    indexed.sort();
    Val::l(vec![Val::l(scripts), Val::n(storage.get_min_filtered_block_number()),
        Val::l(records.into_iter().map(|(s, c, ms)| Val::l(vec![Val::n(s), Val::n(c), Val::l(ms.into_iter().map(Val::n).collect())])).collect()),
        Val::l(indexed.into_iter().map(Val::n).collect())])
}

fn state_term(v: &Val) -> String {
    // (mkCS scripts min records indexed) from the printed observation
    if let Val::L(parts) = v {
        let pairs = |x: &Val| -> String { if let Val::L(l) = x { coq_list(&l.iter().map(|p| if let Val::L(q) = p { format!("({}, {})", num(&q[0]), num(&q[1])) } else { String::new() }).collect::<Vec<_>>()) } else { "[]".into() } };
        let recs = if let Val::L(l) = &parts[2] { coq_list(&l.iter().map(|r| if let Val::L(q) = r { format!("({}, {}, {})", num(&q[0]), num(&q[1]), nums(&q[2])) } else { String::new() }).collect::<Vec<_>>()) } else { "[]".into() };
        return format!("(mkCS {} {} {} {})", pairs(&parts[0]), num(&parts[1]), recs, nums(&parts[3]));
    }
    "(mkCS [] 0 [] [])".into()
}
fn num(v: &Val) -> String { if let Val::N(s) = v { s.clone() } else { "0".into() } }
fn nums(v: &Val) -> String { if let Val::L(l) = v { coq_list(&l.iter().map(num).collect::<Vec<_>>()) } else { "[]".into() } }

fn make_plan(rng: &mut Rng, seed: u64) -> Plan {
    let len = rng.range(26, 40);
    let fork_at = rng.range(len - 12, len - 5);
    // the first proof ends a little above the fork point, so that the later fork switch is within the remembered last-N headers
    let h1 = (fork_at + rng.range(1, 4)).min(len - 2);
    // (plan.seed = run seed * 10000 + history number) the histories of a run alternate: three targeted variants, three generated ones
    let variant = (seed % 10_000) % 6;
    if variant < 3 {
        // pending records above the fork point at the moment of the fork switch: filtering starts just below the fork point, one
        // batch ends at it, the next one lies entirely above it; the peer then switches to the other branch.
        // (A crash inside the switch restarts the client with the records in the store only.)
        let h1 = fork_at + 3;
        let list: Vec<(usize, bool, u64)> = (0..3usize).map(|i| (i, true, fork_at - 2)).collect();
        let mut ops = vec![Op::Init, Op::Prove { on_fork: false, height: h1 }, Op::SetScripts { cmd: 0, list },
            Op::Filters { batch: 2 }, Op::Filters { batch: 8 }, Op::Prove { on_fork: true, height: h1 + 7 },
            Op::Download, Op::Filters { batch: 8 }, Op::Download, Op::Filters { batch: 8 }, Op::Download];
        // variant 1: the blocks above the fork point are downloaded and indexed BEFORE the switch, so that the rollback has real
        // index entries to undo (and the new branch puts other blocks at the same heights)
        if variant >= 1 { ops.insert(5, Op::Download); }
        // variant 2: ... and then the user re-registers one script from an older block (partial): filter progress is rewound BELOW
        // the fork point while the index of the other scripts still reaches the old tip - the switch has to roll that index back
        if variant == 2 { ops.insert(6, Op::SetScripts { cmd: 1, list: vec![(0, true, fork_at.saturating_sub(6))] }); }
        // right after the switch a batch of exactly ONE filter: the block at the rollback point (scripts stand AT it, filter progress
        // one below) has to be examined for the new branch
        if let Some(pos) = ops.iter().position(|o| matches!(o, Op::Prove { on_fork: true, .. })) { ops.insert(pos + 1, Op::Filters { batch: 1 }); ops.insert(pos + 2, Op::Download); }
        // last-N 4: the switch is 7 blocks ahead (sampled regime, the request starts at the stored tip, the honest answer carries a
        // reorg section) and 3 blocks deep (the fork point is remembered): the one path on which commit_prove_state rolls back
        return Plan { seed, len, fork_at, ops, last_n: 4 };
    }
    let mut ops = vec![Op::Init, Op::Prove { on_fork: false, height: h1 }];
    let n_scripts = rng.range(1, 2);
    let list: Vec<(usize, bool, u64)> = (0..n_scripts).map(|i| (i as usize, true, 0u64)).collect();
    ops.push(Op::SetScripts { cmd: 0, list });
    let mut switched = false;
    let mut grown = false;
    for _ in 0..rng.range(4, 9) {
        match rng.below(10) {
            0..=3 => ops.push(Op::Filters { batch: rng.range(2, 9) }),
            4..=5 => ops.push(Op::Download),
            6 => ops.push(if rng.chance(2, 3) { Op::Finalize } else { Op::Download }),
            7 => { let sid = rng.range(1, 2) as usize; let start = rng.range(0, len / 2); ops.push(Op::SetScripts { cmd: if rng.chance(3, 4) { 1 } else { 2 }, list: vec![(sid, rng.chance(3, 4), start)] }); }
            8 if !grown && !switched => { grown = true; ops.push(Op::Prove { on_fork: false, height: len - 1 }); }
            // three blocks above the proven tip: a gap of exactly last-N + 1 would run into the listed C05 finding (honest answer rejected)
            _ if !switched && !grown => { switched = true; ops.push(Op::Prove { on_fork: true, height: h1 + 3 }); }
            _ => ops.push(Op::Filters { batch: rng.range(2, 9) }),
        }
    }
    Plan { seed, len, fork_at, ops, last_n: LAST_N }
}

fn skip_first_tag(op: &Op, k: u64) -> bool { matches!(op, Op::SetScripts { .. }) && k % 2 == 0 }

struct Snapshot { scripts: Vec<(usize, bool, u64)>, min_filtered: u64, tip: u64, pending: usize, problems: Vec<String> }

/// reopen, read everything an RPC would read, and judge the index against the chain the honest peer serves
fn judge(w: &mut World, starts: &[(usize, bool, u64)]) -> Snapshot {
    let mut problems = Vec::new();
    let opened = catch(|| { let genesis = w.main.chain.genesis_block(); Net::over(w.storage.clone(), genesis, &w.consensus, w.last_n, 1, INTERVAL) });
    let net = match opened { Some(n) => n, None => { return Snapshot { scripts: vec![], min_filtered: 0, tip: 0, pending: 0, problems: vec![format!("[C08-store-unusable-after-crash] the client aborts while starting on the store the crash left behind: {}", super::last_panic())] }; } };
    let read = catch(|| {
        let scripts: Vec<(usize, bool, u64)> = net.storage.get_filter_scripts().iter().map(|ss| (w.pool.iter().position(|s| s == &ss.script).unwrap_or(99), ss.script_type == ScriptType::Lock, ss.block_number)).collect();
        let tip: u64 = net.storage.get_tip_header().raw().number().unpack();
        let _ = net.storage.get_last_n_headers();
        let _ = net.storage.get_last_check_point();
        let _ = net.storage.get_max_check_point_index();
        (scripts, net.storage.get_min_filtered_block_number(), tip)
    });
    let (scripts, min_filtered, tip) = match read { Some(x) => x, None => { return Snapshot { scripts: vec![], min_filtered: 0, tip: 0, pending: 0, problems: vec![format!("[C08-store-unusable-after-crash] a storage accessor aborts on the store the crash left behind: {}", super::last_panic())] }; } };
    let bc = if w.on_fork { &w.fork } else { &w.main };
    for (sid, is_lock, number) in &scripts {
        if *sid >= w.pool.len() { continue; }
        // the user may have registered the script more than once; what is promised is everything after the latest start
        // number that is not above the number reported now
        let from = starts.iter().filter(|s| s.0 == *sid && s.1 == *is_lock && s.2 <= *number).map(|s| s.2).max().unwrap_or(0);
        let expect = bc.live_cells(&w.pool[*sid], *is_lock, from, *number);
        let live_any = bc.live_cells(&w.pool[*sid], *is_lock, 0, *number);
        let got: Vec<_> = indexed_cells(&net, &w.pool[*sid], *is_lock).into_iter().filter(|c| c.0 <= *number).collect();
        let missing: Vec<_> = expect.iter().filter(|c| !got.contains(c)).map(|c| (c.0, c.1, c.2)).collect();
        let phantom: Vec<_> = got.iter().filter(|c| c.0 > from && !live_any.contains(c)).map(|c| (c.0, c.1, c.2)).collect();
        if !missing.is_empty() || !phantom.is_empty() {
            problems.push(format!("[C08-activity-lost-after-crash]{} script {} ({}) is reported as filtered up to {} but its index misses {:?} and has extra {:?}", if w.on_fork && !phantom.is_empty() { " [C04-index-keeps-abandoned-branch]" } else if w.on_fork && !missing.is_empty() { " [C04-index-misses-new-branch]" } else { "" }, sid + 1, if *is_lock { "lock" } else { "type" }, number, missing, phantom));
        }
    }
    // C16: whatever get_transaction reports as committed is committed by the block it names
    let mut hashes: Vec<&packed::Byte32> = w.main.all.keys().chain(w.fork.all.keys()).collect();
    hashes.sort_by(|a, b| a.as_slice().cmp(b.as_slice()));
    hashes.dedup();
    for h in hashes {
        match catch(|| net.storage.get_transaction_with_header(h)) {
            None => { problems.push(format!("[C16-get-transaction-aborts] get_transaction of a stored transaction aborts: {}", super::last_panic())); break; }
            Some(None) => {}
            Some(Some((tx, header))) => {
                let hh = header.calc_header_hash();
                let holds = |bc: &BodyChain| bc.chain.number_of(&hh).map(|n| bc.chain.bodies[n as usize].iter().any(|x| x.as_slice() == tx.as_slice())).unwrap_or(false);
                if !holds(&w.main) && !holds(&w.fork) {
                    let n: u64 = header.raw().number().unpack();
                    problems.push(format!("[C16-transaction-paired-with-wrong-block] get_transaction reports a transaction as committed in block #{} ({:#x}), which does not contain it: the transaction was indexed from the block of the abandoned branch at that height", n, hh));
                    break;
                }
            }
        }
    }
    problems.extend(w.table_problems.iter().cloned());
    let pending = matched_records(&net).len();
    Snapshot { scripts, min_filtered, tip, pending, problems }
}

pub(crate) fn run(seed: u64, n: u64, out: &mut Out) {
    let guard = ckb_systemtime::faketime();
    guard.set_faketime(T0);
    let mut rng = Rng::new(seed);
    let tier_thorough = std::env::var("VERIF_TIER").map(|t| t == "thorough").unwrap_or(false);
    for hist in 0..n {
        let plan = make_plan(&mut rng, seed * 10_000 + hist);
        // intended start number of every script ever registered
        let mut starts: Vec<(usize, bool, u64)> = Vec::new();
        for op in &plan.ops { if let Op::SetScripts { cmd, list } = op { if *cmd != 2 { for s in list { starts.push(s.clone()); } } } }
        // ---- the crash-free run: writes per operation, and where syncing ends up ----
        verif_hook::CRASH_AT.with(|c| c.set(0));
        if std::env::var("VERIF_DEBUG_CASE").map(|c| c == format!("{}-ref", hist)).unwrap_or(false) { std::env::set_var("VERIF_DEBUG", "1"); } else { std::env::remove_var("VERIF_DEBUG"); }
        let mut w = build(&plan);
        let mut writes: Vec<u64> = Vec::new();
        let mut ok = true;
        let trace: std::rc::Rc<std::cell::RefCell<Vec<Val>>> = Default::default();
        for (oi, op) in plan.ops.iter().enumerate() {
            let before = verif_hook::WRITES.with(|c| c.get());
            // ---- correspondence with Model/Crash.v: the store as it is before every write of this operation ----
            let modelled = matches!(op, Op::Filters { .. } | Op::Download | Op::SetScripts { .. }) && w.net.is_some();
            let mut model_ws: Option<String> = None;
            if modelled {
                let number_of = |h: &packed::Byte32| -> Option<u64> { w.chain().chain.number_of(h) };
                let st0 = abstract_state(&w.storage, &w.pool, &number_of);
                let regs: Vec<(usize, bool, u64)> = w.storage.get_filter_scripts().iter().map(|ss| (w.pool.iter().position(|s| s == &ss.script).unwrap_or(99), ss.script_type == ScriptType::Lock, ss.block_number)).collect();
                let touched = |n: u64| regs.iter().any(|(sid, is_lock, _)| *sid < w.pool.len() && w.chain().touches_role(n, &w.pool[*sid], *is_lock));
                let ws = match op {
                    Op::Filters { batch } => {
                        let start = w.storage.get_min_filtered_block_number() + 1;
                        let proven = w.net.as_ref().unwrap().peers.get_state(&w.peer).map(|s| s.get_prove_state().is_some()).unwrap_or(false);
                        if start > w.height || regs.is_empty() || !proven { Some("[]".to_string()) } else {
                            let end = (start + batch - 1).min(w.height);
                            let sent = end - start + 1;
                            // how many of the filters can be verified: the hashes after the finalized check point, or the cached
                            // hashes of the interval the batch starts in (none: the batch is ignored)
                            let (fin, _) = w.storage.get_last_check_point();
                            let fin_number = fin as u64 * INTERVAL;
                            let peers = &w.net.as_ref().unwrap().peers;
                            let known: u64 = if start <= fin_number {
                                let (ci, hashes) = peers.get_cached_block_filter_hashes();
                                let cn = ci as u64 * INTERVAL;
                                if start <= cn || start > cn + INTERVAL || hashes.is_empty() || start - cn - 1 > hashes.len() as u64 { 0 } else { hashes.len() as u64 - (start - cn - 1) }
                            } else {
                                let latest = peers.get_latest_block_filter_hashes(fin).len() as u64;
                                if start - fin_number - 1 > latest { 0 } else { latest - (start - fin_number - 1) }
                            };
                            let count = sent.min(known);
                            if count == 0 { model_ws = Some(format!("{}|[]", state_term(&st0))); }
                            let count = count.max(1);
                            let end = start + count - 1;
                            // a filter matches when the block touches (in any role) a script registered below the end of the batch
                            let ms: Vec<u64> = (start..=end).filter(|n| regs.iter().any(|(sid, _, num)| *sid < w.pool.len() && *num < start + count && w.chain().touches(*n, &w.pool[*sid]))).collect();
                            // "nothing waits": neither in memory nor in the store (after a restart or a rollback the records are only in the store
                            // until they are recovered; since bbd74d4 the handler leaves the script numbers alone then)
                            let mem_empty = w.net.as_ref().unwrap().peers.matched_blocks().read().map(|m| m.is_empty()).unwrap_or(true) && w.storage.get_earliest_matched_blocks().is_none();
                            Some(format!("(batch_writes {} {} {} {})", mem_empty, start, count, coq_list(&ms.iter().map(|x| format!("{}", x)).collect::<Vec<_>>())))
                        }
                    }
                    Op::Download => {
                        let recs = matched_records(w.net.as_ref().unwrap());
                        let parts: Vec<String> = recs.iter().map(|(start, count, blocks)| {
                            let mut ms: Vec<u64> = blocks.iter().filter_map(|(h, _)| w.chain().chain.number_of(h)).collect();
                            ms.sort();
                            format!("(complete_writes {} {} {})", start, count, coq_list(&ms.iter().map(|b| format!("({}, {})", b, touched(*b))).collect::<Vec<_>>()))
                        }).collect();
                        Some(if parts.is_empty() { "[]".to_string() } else { format!("({})", parts.join(" ++ ")) })
                    }
                    Op::SetScripts { cmd, list } => { if *cmd != 0 && list.is_empty() { Some("[]".to_string()) } else { Some("SET".to_string()) } }
                    _ => None,
                };
                if model_ws.is_none() { model_ws = ws.map(|x| format!("{}|{}", state_term(&st0), x)); }
                trace.borrow_mut().clear();
                let (tr, st, pool) = (trace.clone(), w.storage.clone(), w.pool.clone());
                let chain_hashes: Vec<(packed::Byte32, u64)> = w.chain().chain.headers.iter().map(|h| (h.hash(), h.number())).collect();
                verif_hook::ON_WRITE.with(|f| *f.borrow_mut() = Some(Box::new(move |_n| {
                    let number_of = |h: &packed::Byte32| chain_hashes.iter().find(|x| &x.0 == h).map(|x| x.1);
                    tr.borrow_mut().push(abstract_state(&st, &pool, &number_of));
                })));
            }
            let r = catch(|| w.exec(op));
            verif_hook::ON_WRITE.with(|f| *f.borrow_mut() = None);
            if r.is_none() { ok = false; break; }
            writes.push(verif_hook::WRITES.with(|c| c.get()) - before);
            if let Some(mw) = model_ws {
                let number_of = |h: &packed::Byte32| -> Option<u64> { w.chain().chain.number_of(h) };
                let after = abstract_state(&w.storage, &w.pool, &number_of);
                let mut states: Vec<Val> = trace.borrow().clone();
                states.push(after.clone());
                let (st0, ws) = mw.split_once('|').unwrap();
                let ws = if ws == "SET" {
                    // set_scripts: everything it changes appears in one write; the genesis block is filtered afterwards when a script starts at 0
                    if let (Val::L(a), Op::SetScripts { cmd, list }) = (&after, op) {
                        let genesis = if *cmd == 0 { list.iter().any(|x| x.2 == 0) } else if *cmd == 1 { list.iter().map(|x| x.2).min() == Some(0) } else { false };
                        let scripts = if let Val::L(l) = &a[0] { coq_list(&l.iter().map(|p| if let Val::L(q) = p { format!("({}, {})", num(&q[0]), num(&q[1])) } else { String::new() }).collect::<Vec<_>>()) } else { "[]".into() };
                        format!("(set_scripts_writes {} (Some {}) {})", scripts, num(&a[1]), genesis)
                    } else { "[]".to_string() }
                } else if matches!(op, Op::Download) && ws.starts_with("((complete_writes") {
                    // how many of the pending records one Download operation gets through is the harness's pumping (blocks in transit per
                    // peer, rounds), not the store's logic: the write sequence is modelled for the records this operation completed; a
                    // record it only began shows as extra writes and disagrees
                    let still: Vec<u64> = matched_records(w.net.as_ref().unwrap()).iter().map(|r| r.0).collect();
                    let parts: Vec<&str> = ws[1..ws.len() - 1].split(" ++ ").filter(|p| {
                        let start: u64 = p.trim_start_matches("(complete_writes ").split(' ').next().and_then(|x| x.parse().ok()).unwrap_or(u64::MAX);
                        !still.contains(&start)
                    }).collect();
                    if parts.is_empty() { "[]".to_string() } else { format!("({})", parts.join(" ++ ")) }
                } else { ws.to_string() };
                out.case(&format!("writes-{}-{}", hist, oi), &["write-order", op.name()], &format!("(run_prefixes {} {})", st0, ws), &Val::l(states), Ok(()),
                    &format!("history {}: the store before each of the {} writes of operation {} ({}) and after it", hist, writes[oi], oi, op.name()));
            }
        }
        if !ok { out.case(&format!("crash-{}-ref", hist), &["crash-free"], "(VN 1)", &Val::n(1), Err(format!("[C10-handler-panic] the crash-free history itself panicked: {}", super::last_panic())), "reference run"); continue; }
        let conv = catch(|| w.converge());
        let reference = judge(&mut w, &starts);
        let mut ref_problems = reference.problems.clone();
        if conv.is_none() { ref_problems.push(format!("[C10-handler-panic] syncing after the crash-free history panicked: {}", super::last_panic())); }
        let descr = format!("history {}: chain {} blocks, fork at {}, crash-free run ends with tip #{}, min filtered {}, scripts {:?}; ops {}", hist, plan.len, plan.fork_at, reference.tip, reference.min_filtered, reference.scripts, plan.ops.iter().zip(writes.iter()).map(|(o, k)| format!("{}:{}w", o.name(), k)).collect::<Vec<_>>().join(","));
        out.case(&format!("crash-{}-ref", hist), &["crash-free"], "(VN 1)", &Val::n(1), if ref_problems.is_empty() { Ok(()) } else { Err(ref_problems.join(" || ").replace("C08-activity-lost-after-crash", "C03-index-mismatch-after-sync")) }, &descr);
        if !ref_problems.is_empty() { continue; }
        // ---- every write boundary of every operation ----
        for (i, op) in plan.ops.iter().enumerate() {
            let k_all: Vec<u64> = (1..=writes[i]).collect();
            let ks: Vec<u64> = if tier_thorough || k_all.len() <= 6 { k_all } else { let mut v = vec![1, 2, writes[i] - 1, writes[i]]; v.push(rng.range(3, writes[i] - 2)); v.push(rng.range(3, writes[i] - 2)); v.sort(); v.dedup(); v };
            for k in ks {
                verif_hook::CRASH_AT.with(|c| c.set(0));
                if std::env::var("VERIF_DEBUG_CASE").map(|c| c == format!("{}-{}-{}", hist, i, k)).unwrap_or(false) { std::env::set_var("VERIF_DEBUG", "1"); } else { std::env::remove_var("VERIF_DEBUG"); }
                let mut w = build(&plan);
                let mut pre_ok = true;
                for op0 in plan.ops.iter().take(i) { if catch(|| w.exec(op0)).is_none() { pre_ok = false; break; } }
                if !pre_ok { continue; }
                let base = verif_hook::WRITES.with(|c| c.get());
                verif_hook::CRASH_AT.with(|c| c.set(base + k));
                let r = catch(|| w.exec(op));
                verif_hook::CRASH_AT.with(|c| c.set(0));
                let crashed = verif_hook::WRITES.with(|c| c.get()) >= base + k;
                let _ = r;
                // process death: nothing in memory survives; the honest peer is where the plan leaves it
                w.net = None;
                w.inbox.clear();
                // (the peer's position is whatever the replayed operations leave it at)
                let mut problems: Vec<String> = Vec::new();
                let started = catch(|| w.start());
                if started.is_none() {
                    problems.push(format!("[C08-store-unusable-after-crash] the client aborts while starting on the store left by a crash before write {} of {} ({}): {}", k, writes[i], op.name(), super::last_panic()));
                } else {
                    // life goes on: the interrupted operation is issued again (the user repeats the RPC, the peer repeats its
                    // message) and the rest of the history follows
                    let mut replay_ok = true;
                    // a user whose set_scripts call died with the process may or may not call it again
                    let skip_first = matches!(op, Op::SetScripts { .. }) && k % 2 == 0;
                    for (j, op1) in plan.ops.iter().enumerate().skip(i) {
                        if matches!(op1, Op::Init) || (skip_first && j == i) { continue; }
                        if catch(|| w.exec(op1)).is_none() { replay_ok = false; problems.push(format!("[C08-store-unusable-after-crash] repeating {} on the store left by a crash before write {} of {} ({}) aborts: {}", op1.name(), k, writes[i], op.name(), super::last_panic())); break; }
                    }
                    let _ = replay_ok;
                    if catch(|| w.converge()).is_none() { problems.push(format!("[C08-store-unusable-after-crash] syncing on the store left by a crash before write {} of {} ({}) aborts: {}", k, writes[i], op.name(), super::last_panic())); }
                    let snap = judge(&mut w, &starts);
                    problems.extend(snap.problems.iter().map(|p| format!("{} (crash before write {} of {} in {})", p, k, writes[i], op.name())));
                    if problems.is_empty() {
                        // progress: filter syncing gets as far as in the crash-free run and no matched block stays undownloaded
                        // (the scripts' own numbers trail by up to a batch, depending on where the batches happen to end)
                        if snap.min_filtered < reference.min_filtered || snap.pending > reference.pending {
                            problems.push(format!("[C08-sync-stuck-after-crash] after a crash before write {} of {} ({}) syncing stops at min filtered {} with {} matched record(s) pending, scripts {:?}; the crash-free run ends at {} with {} pending, scripts {:?}", k, writes[i], op.name(), snap.min_filtered, snap.pending, snap.scripts, reference.min_filtered, reference.pending, reference.scripts));
                        }
                        if snap.tip < reference.tip { problems.push(format!("[C08-sync-stuck-after-crash] the stored tip only gets to #{} after a crash before write {} of {} ({}); the crash-free run gets to #{}", snap.tip, k, writes[i], op.name(), reference.tip)); }
                    }
                }
                let oracle = if problems.is_empty() { Ok(()) } else { Err(problems.join(" || ")) };
                out.case(&format!("crash-{}-{}-{}", hist, i, k), &["crash", op.name(), if crashed { "reached" } else { "not-reached" }, if skip_first_tag(op, k) { "rpc-not-repeated" } else { "repeated" }], "(VN 1)", &Val::n(1), oracle,
                    &format!("{} ; crash before write {} of operation {} ({})", descr, k, i, op.name()));
            }
        }
    }
    verif_hook::CRASH_AT.with(|c| c.set(0));
}
