(* C13, both iteration orders: pagination by last_cursor is exact for ascending and descending order, and the
   first scan (cursor = None) returns every stored entry whose key starts with the search prefix. *)
From Coq Require Import NArith Lia List Bool Arith Sorted.
From LC Require Import Query QueryProofs.
Import ListNotations.
Open Scope N_scope.
Open Scope bool_scope.

(* ------------------------------------------------------------------------------------ *)
(* bytes: order facts *)

Lemma blt_leb_trans a b c : blt a b -> bytes_leb b c = true -> bytes_leb a c = true.
Proof.
  unfold bytes_leb, blt. intros H1 H2. destruct (bytes_cmp b c) eqn:C; try discriminate.
  - apply bytes_cmp_eq in C. subst. rewrite H1. reflexivity.
  - rewrite (bytes_cmp_trans a b c H1 C). reflexivity.
Qed.

Lemma starts_with_cmp p : forall x t, starts_with x p = true ->
  exists s, x = p ++ s /\ bytes_cmp x (p ++ t) = bytes_cmp s t.
Proof.
  induction p as [|y p IH]; intros x t H.
  - exists x. split; reflexivity.
  - destruct x as [|a x]; [discriminate|]. cbn [starts_with] in H. apply andb_true_iff in H. destruct H as [Ha Hx].
    apply N.eqb_eq in Ha. subst a. destruct (IH x t Hx) as [s [E1 E2]].
    exists s. split; [cbn [app]; rewrite E1; reflexivity|]. cbn [app bytes_cmp]. rewrite N.compare_refl. exact E2.
Qed.

Lemma starts_with_app p s : starts_with (p ++ s) p = true.
Proof. induction p as [|y p IH]; [destruct s; reflexivity|]. cbn [app starts_with]. rewrite N.eqb_refl. exact IH. Qed.

Lemma starts_with_leb x p : starts_with x p = true -> bytes_leb p x = true.
Proof.
  revert x; induction p as [|y p IH]; intros x H.
  - unfold bytes_leb. destruct x; reflexivity.
  - destruct x as [|a x]; [discriminate|]. cbn [starts_with] in H. apply andb_true_iff in H. destruct H as [Ha Hx].
    apply N.eqb_eq in Ha. subst a. specialize (IH x Hx). unfold bytes_leb in *. cbn [bytes_cmp]. rewrite N.compare_refl. exact IH.
Qed.

(* anything between two strings that both start with p starts with p *)
Lemma starts_with_between p : forall lo a hi,
  bytes_leb lo a = true -> bytes_leb a hi = true ->
  starts_with lo p = true -> starts_with hi p = true -> starts_with a p = true.
Proof.
  induction p as [|y p IH]; intros lo a hi H1 H2 Hlo Hhi; [destruct a; reflexivity|].
  destruct lo as [|l lo]; [discriminate|]. destruct hi as [|h hi]; [discriminate|].
  cbn [starts_with] in Hlo, Hhi. apply andb_true_iff in Hlo, Hhi. destruct Hlo as [El Hlo]. destruct Hhi as [Eh Hhi].
  apply N.eqb_eq in El, Eh. subst l h.
  destruct a as [|x a]; [unfold bytes_leb in H1; cbn in H1; discriminate|].
  unfold bytes_leb in H1, H2. cbn [bytes_cmp] in H1, H2.
  destruct (y ?= x) eqn:C1; try discriminate.
  - apply N.compare_eq in C1. subst x. rewrite N.compare_refl in H2.
    cbn [starts_with]. rewrite N.eqb_refl. cbn [andb].
    apply (IH lo a hi); unfold bytes_leb; assumption.
  - destruct (x ?= y) eqn:C2; try discriminate.
    + apply N.compare_eq in C2. subst x. rewrite N.compare_refl in C1. discriminate.
    + rewrite N.compare_lt_iff in C1, C2. lia.
Qed.

Definition bytes_ok (k : bytes) : Prop := Forall (fun b => b <= 255) k.

Lemma leb_all_ff : forall s k, bytes_ok s -> (length s <= k)%nat -> bytes_leb s (repeat 255 k) = true.
Proof.
  induction s as [|x s IH]; intros k Hok Hk.
  - unfold bytes_leb. destruct k; reflexivity.
  - destruct k as [|k]; [cbn [length] in Hk; lia|]. inversion Hok as [|? ? Hx Hs]; subst.
    unfold bytes_leb. cbn [repeat bytes_cmp]. destruct (x ?= 255) eqn:C.
    + cbn [length] in Hk. specialize (IH k Hs ltac:(lia)). unfold bytes_leb in IH. exact IH.
    + reflexivity.
    + rewrite N.compare_gt_iff in C. lia.
Qed.

Lemma bytes_ok_app_r a b : bytes_ok (a ++ b) -> bytes_ok b.
Proof. unfold bytes_ok. intros H. apply Forall_app in H. tauto. Qed.

(* a key with the prefix, of bounded length, is not above  prefix ++ 0xff..ff *)
Lemma prefixed_leb_upper p x k :
  starts_with x p = true -> bytes_ok x -> (length x <= length p + k)%nat ->
  bytes_leb x (p ++ repeat 255 k) = true.
Proof.
  intros H Hok Hl. destruct (starts_with_cmp p x (repeat 255 k) H) as [s [E1 E2]].
  unfold bytes_leb. rewrite E2. subst x. rewrite app_length in Hl.
  apply (leb_all_ff s k); [exact (bytes_ok_app_r p s Hok) | lia].
Qed.

(* ------------------------------------------------------------------------------------ *)
(* lists sorted by an arbitrary relation *)

Lemma filter_rev' {A} (f : A -> bool) l : filter f (rev l) = rev (filter f l).
Proof.
  induction l as [|a l IH]; [reflexivity|]. cbn [rev filter]. rewrite filter_app, IH. cbn [filter].
  destruct (f a); [reflexivity | apply app_nil_r].
Qed.

Lemma StronglySorted_app_inv {A} (R : A -> A -> Prop) l1 l2 :
  StronglySorted R (l1 ++ l2) ->
  StronglySorted R l1 /\ StronglySorted R l2 /\ (forall a b, In a l1 -> In b l2 -> R a b).
Proof.
  induction l1 as [|x l1 IH]; intros S.
  - split; [constructor|]. split; [exact S|]. intros a b [].
  - cbn [app] in S. inversion S as [|? ? S' F]; subst. destruct (IH S') as [S1 [S2 H12]].
    rewrite Forall_forall in F. split.
    + constructor; [exact S1|]. rewrite Forall_forall. intros y Hy. apply F. apply in_or_app. left; exact Hy.
    + split; [exact S2|]. intros a b [Ha|Ha] Hb; [subst a; apply F; apply in_or_app; right; exact Hb | apply H12; assumption].
Qed.

Lemma StronglySorted_app {A} (R : A -> A -> Prop) l1 l2 :
  StronglySorted R l1 -> StronglySorted R l2 -> (forall a b, In a l1 -> In b l2 -> R a b) ->
  StronglySorted R (l1 ++ l2).
Proof.
  induction l1 as [|x l1 IH]; intros S1 S2 H; [exact S2|].
  inversion S1 as [|? ? S1' F]; subst. cbn [app]. constructor.
  - apply IH; [exact S1' | exact S2 | intros a b Ha Hb; apply H; [right; exact Ha | exact Hb]].
  - rewrite Forall_forall in *. intros y Hy. apply in_app_or in Hy. destruct Hy as [Hy|Hy]; [apply F; exact Hy | apply H; [left; reflexivity | exact Hy]].
Qed.

Lemma StronglySorted_rev {A} (R : A -> A -> Prop) l :
  StronglySorted R l -> StronglySorted (fun a b => R b a) (rev l).
Proof.
  induction l as [|x l IH]; intros S; [constructor|]. inversion S as [|? ? S' F]; subst. cbn [rev].
  apply StronglySorted_app; [apply IH; exact S' | constructor; [constructor | constructor] |].
  intros a b Ha [Hb|[]]. subst b. rewrite Forall_forall in F. apply F. apply in_rev. exact Ha.
Qed.

(* iterating a sorted list from the first element allowed by G while P holds visits exactly the elements
   with P, provided P implies G and P is "convex" after a G element *)
Lemma take_while_filter {A} (R : A -> A -> Prop) (P G : A -> bool) l :
  StronglySorted R l ->
  (forall x, In x l -> P x = true -> G x = true) ->
  (forall a b, In a l -> In b l -> G a = true -> R a b -> P b = true -> P a = true) ->
  take_while P (filter G l) = filter P l.
Proof.
  induction l as [|a l IH]; intros S H1 H2; [reflexivity|].
  inversion S as [|? ? S' F]; subst. rewrite Forall_forall in F.
  assert (IH' : take_while P (filter G l) = filter P l).
  { apply IH; [exact S' | intros x Hx; apply H1; right; exact Hx |
               intros x y Hx Hy; apply H2; right; assumption]. }
  cbn [filter]. destruct (G a) eqn:Ga.
  - cbn [take_while]. destruct (P a) eqn:Pa; [rewrite IH'; reflexivity|].
    symmetry. clear IH IH'. induction l as [|b l IHl]; [reflexivity|].
    cbn [filter]. destruct (P b) eqn:Pb.
    + assert (P a = true) by (apply (H2 a b); [left; reflexivity | right; left; reflexivity | exact Ga | apply F; left; reflexivity | exact Pb]).
      congruence.
    + apply IHl.
      * inversion S' as [|? ? S'' _]; subst. constructor; [exact S''|]. rewrite Forall_forall. intros x Hx. apply F. right; exact Hx.
      * intros x [Hx|Hx]; [subst x; intros Px; congruence | apply H1; right; right; exact Hx].
      * intros x y Hx Hy. apply H2; [destruct Hx as [Hx|Hx]; [left; exact Hx | right; right; exact Hx] |
                                     destruct Hy as [Hy|Hy]; [left; exact Hy | right; right; exact Hy]].
      * inversion S' as [|? ? S'' _]; subst. exact S''.
      * intros x Hx. apply F. right; exact Hx.
  - destruct (P a) eqn:Pa; [rewrite (H1 a (or_introl eq_refl) Pa) in Ga; discriminate | exact IH'].
Qed.

(* ------------------------------------------------------------------------------------ *)
(* seek in either direction *)
Section SeekAny.
  Context {E : Type} (key_of : E -> bytes).

  (* the order in which an iterator of the given direction visits the store *)
  Definition iter (asc : bool) (db : list E) : list E := if asc then db else rev db.

  Lemma seek_bwd_at pre e post :
    sorted_db key_of (pre ++ e :: post) ->
    seek key_of (key_of e) false (pre ++ e :: post) = e :: rev pre.
  Proof.
    unfold seek, sorted_db. intros S.
    destruct (StronglySorted_app_inv _ pre (e :: post) S) as [_ [S2 H12]].
    inversion S2 as [|? ? _ F]; subst. rewrite Forall_forall in F.
    rewrite filter_app. cbn [filter]. rewrite bytes_leb_refl.
    assert (Hpre : filter (fun x => bytes_leb (key_of x) (key_of e)) pre = pre).
    { assert (Hall : forall x, In x pre -> blt (key_of x) (key_of e)) by (intros x Hx; apply H12; [exact Hx | left; reflexivity]).
      clear - Hall. induction pre as [|a pre IH]; [reflexivity|]. cbn [filter].
      rewrite (blt_leb (key_of a) (key_of e)) by (apply Hall; left; reflexivity).
      f_equal. apply IH. intros x Hx. apply Hall. right; exact Hx. }
    assert (Hpost : filter (fun x => bytes_leb (key_of x) (key_of e)) post = []).
    { clear - F. induction post as [|b post IH]; [reflexivity|]. cbn [filter].
      rewrite (blt_not_leb (key_of e) (key_of b)) by (apply F; left; reflexivity).
      apply IH. intros x Hx. apply F. right; exact Hx. }
    rewrite Hpre, Hpost. rewrite rev_app_distr. reflexivity.
  Qed.

  (* seeking to the key of a stored entry returns that entry and everything the iterator visits after it *)
  Lemma seek_at asc db pre e post :
    sorted_db key_of db -> iter asc db = pre ++ e :: post ->
    seek key_of (key_of e) asc db = e :: post.
  Proof.
    destruct asc; cbn [iter]; intros S H.
    - subst db. apply seek_fwd_at. exact S.
    - assert (Hdb : db = rev post ++ e :: rev pre).
      { rewrite <- (rev_involutive db), H, rev_app_distr. cbn [rev]. rewrite <- app_assoc. reflexivity. }
      rewrite Hdb in S |- *. rewrite seek_bwd_at by exact S. rewrite rev_involutive. reflexivity.
  Qed.

  Lemma filter_le_prefix from l :
    sorted_db key_of l -> exists rest, l = filter (fun e => bytes_leb (key_of e) from) l ++ rest.
  Proof.
    induction l as [|a l IH]; intros S; [exists []; reflexivity|].
    inversion S as [|? ? S' F]; subst. rewrite Forall_forall in F. cbn [filter].
    destruct (bytes_leb (key_of a) from) eqn:L.
    - destruct (IH S') as [rest Hrest]. exists rest. cbn [app]. f_equal. exact Hrest.
    - exists (a :: l).
      assert (Hnil : filter (fun e => bytes_leb (key_of e) from) l = []).
      { clear IH S S'. induction l as [|b l IHl]; [reflexivity|]. cbn [filter].
        destruct (bytes_leb (key_of b) from) eqn:Lb.
        - rewrite (blt_leb_trans (key_of a) (key_of b) from) in L; [discriminate | apply F; left; reflexivity | exact Lb].
        - apply IHl. intros x Hx. apply F. right; exact Hx. }
      rewrite Hnil. reflexivity.
  Qed.

  (* whatever the start key, the iterator visits a suffix of the iteration order *)
  Lemma seek_suffix asc from db :
    sorted_db key_of db -> exists pre, iter asc db = pre ++ seek key_of from asc db.
  Proof.
    destruct asc; cbn [iter]; intros S.
    - apply (seek_fwd_suffix key_of). exact S.
    - unfold seek. destruct (filter_le_prefix from db S) as [rest H].
      exists (rev rest). rewrite H at 1. rewrite rev_app_distr. reflexivity.
  Qed.
End SeekAny.

(* ------------------------------------------------------------------------------------ *)
(* pagination in either order *)
Section AnyOrderPages.
  Context {E : Type} (key_of : E -> bytes) (pass : E -> bool).
  Variables (tag : N) (raw : bytes) (al : nat) (limit : nat) (db : list E) (asc : bool).

  Definition get_page_o (cursor : option bytes) : list E * bytes :=
    let page := firstn limit (filter pass (scan key_of tag raw al asc cursor db)) in
    (page, last_key key_of page).

  Fixpoint pages_o (fuel : nat) (cursor : option bytes) : list E :=
    match fuel with
    | O => []
    | S fu =>
        let '(p, lk) := get_page_o cursor in
        match p with
        | [] => []
        | _ => p ++ pages_o fu (Some lk)
        end
    end.

  Let prefix := tag :: raw.
  Let P := fun e : E => starts_with (key_of e) prefix.

  Lemma scan_some c : scan key_of tag raw al asc (Some c) db = take_while P (skipn 1 (seek key_of c asc db)).
  Proof. unfold scan, query_options. destruct asc; reflexivity. Qed.

  Lemma pages_o_from : forall fuel pre rest r cursor,
    sorted_db key_of db -> (1 <= limit)%nat ->
    iter asc db = pre ++ rest ++ r ->
    forallb P rest = true -> take_while P r = [] ->
    scan key_of tag raw al asc cursor db = rest ->
    (length rest < fuel)%nat ->
    pages_o fuel cursor = filter pass rest.
  Proof.
    induction fuel as [|fu IH]; intros pre rest r cursor S Hl Hdb Hrest Hr Hscan Hf; [lia|].
    cbn [pages_o]. unfold get_page_o. rewrite Hscan.
    destruct (firstn limit (filter pass rest)) as [|a p] eqn:Pg.
    - destruct (filter pass rest) as [|x xs] eqn:F; [reflexivity|].
      destruct limit; [lia | discriminate].
    - destruct (last_key_in key_of p a) as [p1 [e [Ep Ek]]]. rewrite Ek.
      rewrite Ep in Pg. destruct (page_split pass limit rest p1 e Pg) as [r1 [r2 [E1 [E2 [E3 E4]]]]].
      rewrite Ep. rewrite E4. f_equal.
      assert (Hr2 : forallb P r2 = true).
      { rewrite E1, forallb_app in Hrest. apply andb_true_iff in Hrest. destruct Hrest as [_ H2].
        cbn [forallb] in H2. apply andb_true_iff in H2. tauto. }
      apply (IH (pre ++ r1 ++ [e]) r2 r (Some (key_of e))); try assumption.
      + rewrite Hdb, E1. repeat rewrite <- app_assoc. reflexivity.
      + rewrite scan_some.
        rewrite (seek_at key_of asc db (pre ++ r1) e (r2 ++ r) S).
        * cbn [skipn]. rewrite take_while_app by exact Hr2. rewrite Hr. apply app_nil_r.
        * rewrite Hdb, E1. repeat rewrite <- app_assoc. reflexivity.
      + rewrite E1, app_length in Hf. cbn [length] in Hf. lia.
  Qed.

  Definition first_key : bytes := if asc then prefix else prefix ++ repeat 255 (MAX_PREFIX - al).

  Lemma scan_none : scan key_of tag raw al asc None db = take_while P (seek key_of first_key asc db).
  Proof. unfold scan, query_options, first_key. destruct asc; reflexivity. Qed.

  (* following last_cursor page by page, in either order and with any limit >= 1, yields every passing entry
     of the first scan exactly once, in iteration order, and then an empty page *)
  Theorem pages_o_exact :
    sorted_db key_of db -> (1 <= limit)%nat ->
    pages_o (Datatypes.S (length db)) None = filter pass (scan key_of tag raw al asc None db).
  Proof.
    intros Hsorted Hl.
    destruct (seek_suffix key_of asc first_key db Hsorted) as [pre Hpre].
    destruct (take_while_split P (seek key_of first_key asc db)) as [r [E1 [E2 E3]]].
    rewrite scan_none.
    apply (pages_o_from (Datatypes.S (length db)) pre (take_while P (seek key_of first_key asc db)) r None Hsorted Hl).
    - rewrite <- E1. exact Hpre.
    - exact E2.
    - exact E3.
    - exact scan_none.
    - assert (Hlen : length (iter asc db) = length db) by (unfold iter; destruct asc; [reflexivity | apply rev_length]).
      rewrite <- Hlen, Hpre. rewrite E1 at 2. rewrite !app_length. lia.
  Qed.

  (* the first scan is the whole matching range: every stored entry whose key starts with the search prefix,
     in iteration order.  For descending order the start key  prefix ++ 0xff * (MAX_PREFIX - args_len)  must
     not be below any such key: keys are byte strings no longer than that start key. *)
  Theorem scan_none_is_every_match :
    sorted_db key_of db ->
    (asc = false -> forall e, In e db -> P e = true ->
        bytes_ok (key_of e) /\ (length (key_of e) <= length prefix + (MAX_PREFIX - al))%nat) ->
    scan key_of tag raw al asc None db = iter asc (filter P db).
  Proof.
    intros S Hk. rewrite scan_none. unfold first_key, seek, iter. destruct asc.
    - apply (take_while_filter (fun a b => blt (key_of a) (key_of b))); [exact S | |].
      + intros x _ Px. apply starts_with_leb. exact Px.
      + intros a b _ _ Ga Rab Pb. unfold P in *.
        apply (starts_with_between prefix prefix (key_of a) (key_of b)); [exact Ga | apply blt_leb; exact Rab | | exact Pb].
        rewrite <- (app_nil_r prefix) at 1. apply starts_with_app.
    - rewrite <- filter_rev', <- filter_rev'.
      apply (take_while_filter (fun a b => blt (key_of b) (key_of a))).
      + apply StronglySorted_rev. exact S.
      + intros x Hx Px. apply in_rev in Hx. destruct (Hk eq_refl x Hx Px) as [Hok Hlen].
        apply prefixed_leb_upper; assumption.
      + intros a b _ _ Ga Rba Pb. unfold P in *.
        apply (starts_with_between prefix (key_of b) (key_of a) (prefix ++ repeat 255 (MAX_PREFIX - al)));
          [apply blt_leb; exact Rba | exact Ga | exact Pb | apply starts_with_app].
  Qed.
End AnyOrderPages.

(* the two together: the pages are exactly the stored entries with the prefix that pass the filters *)
Theorem pages_are_the_matching_entries {E} (key_of : E -> bytes) (pass : E -> bool) tag raw al limit db asc :
  sorted_db key_of db -> (1 <= limit)%nat ->
  (asc = false -> forall e, In e db -> starts_with (key_of e) (tag :: raw) = true ->
      bytes_ok (key_of e) /\ (length (key_of e) <= length (tag :: raw) + (MAX_PREFIX - al))%nat) ->
  pages_o key_of pass tag raw al limit db asc (S (length db)) None
  = filter pass (iter asc (filter (fun e => starts_with (key_of e) (tag :: raw)) db)).
Proof.
  intros S Hl Hk. rewrite pages_o_exact by assumption. rewrite scan_none_is_every_match by assumption. reflexivity.
Qed.
