//! C17: set_scripts (RPC), BlockFilters processing (filter protocol), SendBlock indexing (sync protocol) and the
//! fork switch (light-client protocol) on different threads.  For every ordered pair (A, B): A runs on its own
//! thread and is paused, through the guarded hook in storage.rs, before its k-th database write; B is started on a
//! second thread; A is resumed; the final store must equal the outcome of A;B or of B;A on identically prepared
//! clients, and both threads must finish.  The hook also probes the global lock at every write, which gives each
//! operation's locked / unlocked split (compared with RunC17.expected_split).
use std::sync::mpsc::{channel, RecvTimeoutError};
use std::sync::Arc;
use std::time::Duration;

use ckb_network::{bytes::Bytes as P2pBytes, CKBProtocolHandler, PeerIndex};
use ckb_types::{packed, prelude::*};

use super::c06::{indexed_cells, matched_records};
use super::c08::{build, Op, Plan, World};
use super::chain::T0;
use super::ctx::drive;
use super::out::{catch, coq_list, Out, Val};
use super::prng::Rng;
use super::prover;
use super::world::*;
use crate::protocols::light_client::constant::REFRESH_PEERS_TOKEN;
use crate::protocols::Peers;
use crate::service::{BlockFilterRpc, BlockFilterRpcImpl};
use crate::storage::{verif_hook, ScriptType, Storage, StorageWithChainData};

#[derive(Clone, Copy, PartialEq, Debug)]
enum Act { SetScripts, Filters, Block, Fork, Tick }
impl Act {
    fn name(&self) -> &'static str { match self { Act::SetScripts => "set_scripts", Act::Filters => "filter-batch", Act::Block => "block-arrival", Act::Fork => "fork-switch", Act::Tick => "filter-timer" } }
    fn kind(&self) -> u64 { match self { Act::SetScripts => 0, Act::Filters => 1, Act::Block => 2, Act::Fork => 3, Act::Tick => 4 } }
}

struct Prepared {
    w: World,
    filters: Option<P2pBytes>,
    block: Option<P2pBytes>,
    fork: Option<P2pBytes>,
    set_start: u64,
    replace_all: bool,   // set_scripts replaces the whole script set (all) instead of adding one script (partial)
}

fn prepare(plan: &Plan) -> Option<Prepared> { prepare_w(plan, false) }

/// `window`: the in-memory matched blocks are gone (restart / rollback) while their record is still pending in the store:
/// the state in which the filter timer recovers them
fn prepare_w(plan: &Plan, window: bool) -> Option<Prepared> {
    let mut w = build(plan);
    // few remembered headers: the request for the heavier branch then starts at a header of the abandoned one, the honest
    // answer carries a reorg section and the fork switch rolls back (with many, the listed C04 finding gets in the way)
    w.last_n = 6;
    w.exec(&Op::Init);
    let h1 = plan.fork_at + 4;
    w.exec(&Op::Prove { on_fork: false, height: h1 });
    w.exec(&Op::SetScripts { cmd: 0, list: vec![(0, true, 0), (1, true, 0)] });
    w.exec(&Op::Filters { batch: 8 });
    // further batches up to the fork point, then one just above it: the fork switch will have a pending record to drop
    let m = w.storage.get_min_filtered_block_number();
    if m < plan.fork_at { w.exec(&Op::Filters { batch: plan.fork_at - m }); }
    w.exec(&Op::Filters { batch: 2 });
    // prove the matched blocks of the first record and deliver all but the last body
    let inbox = std::mem::take(&mut w.inbox);
    let mut get_blocks: Vec<packed::Byte32> = Vec::new();
    for (p, s) in inbox {
        if let Sent::GetBlocksProof(req) = s {
            let resp = serve_blocks_proof(&w.main.chain, &req)?;
            for (_, s2) in w.net.as_mut().unwrap().lc_recv(p, blocks_proof_message(resp)).sent { if let Sent::GetBlocks(hs) = s2 { get_blocks.extend(hs); } }
        }
    }
    let mut block = None;
    if !get_blocks.is_empty() {
        // the request's order is the iteration order of a HashMap: fix which body is withheld
        get_blocks.sort_by_key(|h| w.main.chain.number_of(h).unwrap_or(0));
        get_blocks.dedup();
        let last = get_blocks.pop().unwrap();
        for h in get_blocks { let n = w.main.chain.number_of(&h)?; let peer = w.peer; w.net.as_mut().unwrap().sp_recv(peer, send_block_message(w.main.chain.block(n))); }
        block = Some(send_block_message(w.main.chain.block(w.main.chain.number_of(&last)?)));
    }
    // the next filter batch
    let start = w.storage.get_min_filtered_block_number() + 1;
    let filters = if start <= w.height { Some(filters_message(super::c08::serve_block_filters_upto(&w.main, start, (start + 4).min(w.height)))) } else { None };
    // a heavier branch announced, the proof for it ready to be delivered
    let fork_h = (plan.len + 1).min(w.fork.tip());
    let peer = w.peer;
    let mut fork = None;
    {
        let net = w.net.as_mut().unwrap();
        let mut sent = net.lc_recv(peer, prover::last_state_message(&w.fork.chain, fork_h).as_bytes()).sent;
        if !sent.iter().any(|(_, s)| matches!(s, Sent::GetLastStateProof(_))) { sent.extend(net.lc_tick(REFRESH_PEERS_TOKEN).sent); }
        for (_, s) in sent { if let Sent::GetLastStateProof(req) = s { if let Some(resp) = prover::respond(&w.fork.chain, &req) { fork = Some(packed::LightClientMessage::new_builder().set(resp).build().as_bytes()); } } }
    }
    let set_start = w.storage.get_min_filtered_block_number() / 2;
    if window { if let Some(net) = w.net.as_ref() { if let Ok(mut g) = net.peers.matched_blocks().write() { g.clear(); } } }
    Some(Prepared { w, filters, block, fork, set_start, replace_all: false })
}

/// the stored tip is block #1 (no remembered headers below it): a heavier proof without reorg section makes commit_prove_state take
/// its "previous last header is block#1" branch, which drops every pending record and rolls the index back to block 1
fn prepare_one(plan: &Plan) -> Option<Prepared> {
    let mut w = build(plan);
    w.last_n = 6;
    w.exec(&Op::Init);
    w.exec(&Op::Prove { on_fork: false, height: 1 });
    if Unpack::<u64>::unpack(&w.storage.get_tip_header().raw().number()) != 1 { return None; }
    // (registered above block 1: the rollback resets their numbers, so its batch re-puts every script it read)
    w.exec(&Op::SetScripts { cmd: 0, list: vec![(0, true, 5), (1, true, 5)] });
    let h = 12u64.min(w.main.tip());
    let peer = w.peer;
    let mut fork = None;
    {
        let net = w.net.as_mut().unwrap();
        let mut sent = net.lc_recv(peer, prover::last_state_message(&w.main.chain, h).as_bytes()).sent;
        if !sent.iter().any(|(_, s)| matches!(s, Sent::GetLastStateProof(_))) { sent.extend(net.lc_tick(REFRESH_PEERS_TOKEN).sent); }
        for (_, s) in sent { if let Sent::GetLastStateProof(req) = s { if let Some(resp) = prover::respond(&w.main.chain, &req) { fork = Some(packed::LightClientMessage::new_builder().set(resp).build().as_bytes()); } } }
    }
    fork.as_ref()?;
    Some(Prepared { w, filters: None, block: None, fork, set_start: 3, replace_all: true })
}

fn snapshot(storage: &Storage, peers: &Peers, pool: &[packed::Script], numbers: &dyn Fn(&packed::Byte32) -> Option<u64>) -> String {
    let scripts: Vec<(usize, bool, u64)> = storage.get_filter_scripts().iter().map(|ss| (pool.iter().position(|s| s == &ss.script).unwrap_or(99), ss.script_type == ScriptType::Lock, ss.block_number)).collect();
    let tip: u64 = storage.get_tip_header().raw().number().unpack();
    let tip_hash = storage.get_tip_header().calc_header_hash();
    let lastn: Vec<u64> = storage.get_last_n_headers().iter().map(|x| x.0).collect();
    let mut recs: Vec<(u64, u64, Vec<(u64, bool)>)> = Vec::new();
    {
        use rocksdb::{ops::Iterate, IteratorMode};
        for (k, val) in storage.db.iterator(IteratorMode::Start) {
            if k[0] == 224 && k[1..].starts_with(b"MATCHED_BLOCKS") && k.len() == 1 + 14 + 8 {
                let start = u64::from_be_bytes(k[15..].try_into().unwrap());
                let count = u64::from_le_bytes(val[0..8].try_into().unwrap());
                let mut ms: Vec<(u64, bool)> = val[8..].chunks(33).map(|c| (numbers(&packed::Byte32::from_slice(&c[..32]).unwrap()).unwrap_or(999_999), c[32] == 1)).collect();
                ms.sort();
                recs.push((start, count, ms));
            }
        }
    }
    let mut cells: Vec<String> = Vec::new();
    for (sid, s) in pool.iter().enumerate() { for is_lock in [true, false] {
        let mut pfx = vec![if is_lock { 32u8 } else { 64u8 }];
        pfx.extend_from_slice(&crate::storage::extract_raw_data(s));
        use rocksdb::{ops::Iterate, IteratorMode};
        for (k, _) in storage.db.iterator(IteratorMode::Start) { if k.len() == pfx.len() + 16 && k.starts_with(&pfx) { let n = k.len(); cells.push(format!("{}{}:{}.{}.{}", sid, if is_lock { "L" } else { "T" }, u64::from_be_bytes(k[n - 16..n - 8].try_into().unwrap()), u32::from_be_bytes(k[n - 8..n - 4].try_into().unwrap()), u32::from_be_bytes(k[n - 4..].try_into().unwrap()))); } }
    } }
    let mem: Vec<(u64, bool, bool)> = peers.matched_blocks().read().map(|m| { let mut v: Vec<(u64, bool, bool)> = m.iter().map(|(h, v)| (numbers(&h.pack()).unwrap_or(999_999), v.0, v.1.is_some())).collect(); v.sort(); v }).unwrap_or_else(|_| vec![(0, false, false)]);
    format!("scripts {:?} min {} tip #{} {:#x} lastn {:?} records {:?} cells {:?} in-memory {:?}", scripts, storage.get_min_filtered_block_number(), tip, tip_hash, lastn, recs, cells, mem)
}

/// what one experiment needs from a prepared client, moved into the threads
struct Parts { storage: Storage, peers: Arc<Peers>, lc: crate::protocols::LightClientProtocol, fp: crate::protocols::FilterProtocol, sp: crate::protocols::SyncProtocol, lnc: super::ctx::Ctx, fnc: super::ctx::Ctx, snc: super::ctx::Ctx, peer: PeerIndex, pool: Vec<packed::Script>, filters: Option<P2pBytes>, block: Option<P2pBytes>, fork: Option<P2pBytes>, set_start: u64, replace_all: bool }

enum Runner { Tick(crate::protocols::FilterProtocol, super::ctx::Ctx), Set(Storage, Arc<Peers>, packed::Script, u64, bool), Filters(crate::protocols::FilterProtocol, super::ctx::Ctx, PeerIndex, P2pBytes), Block(crate::protocols::SyncProtocol, super::ctx::Ctx, PeerIndex, P2pBytes), Fork(crate::protocols::LightClientProtocol, super::ctx::Ctx, PeerIndex, P2pBytes) }
unsafe impl Send for Runner {}

impl Runner {
    fn go(self) -> bool {
        match self {
            Runner::Set(storage, peers, script, start, replace_all) => {
                let rpc = BlockFilterRpcImpl { swc: StorageWithChainData::new(storage, peers, Default::default()) };
                let st = crate::service::ScriptStatus { script: script.into(), script_type: crate::service::ScriptType::Lock, block_number: start.into() };
                catch(|| rpc.set_scripts(vec![st], Some(if replace_all { crate::service::SetScriptsCommand::All } else { crate::service::SetScriptsCommand::Partial }))).is_some()
            }
            Runner::Filters(mut fp, nc, p, m) => drive(fp.received(nc.context(), p, m)).is_ok(),
            Runner::Tick(mut fp, nc) => drive(fp.notify(nc.context(), crate::protocols::GET_BLOCK_FILTERS_TOKEN)).is_ok(),
            Runner::Block(mut sp, nc, p, m) => drive(sp.received(nc.context(), p, m)).is_ok(),
            Runner::Fork(mut lc, nc, p, m) => drive(lc.received(nc.context(), p, m)).is_ok(),
        }
    }
}

fn take_runner(parts: &mut Option<Parts>, act: Act, slots: &mut (Option<crate::protocols::LightClientProtocol>, Option<crate::protocols::FilterProtocol>, Option<crate::protocols::SyncProtocol>)) -> Option<Runner> {
    let p = parts.as_ref().unwrap();
    match act {
        Act::SetScripts => Some(Runner::Set(p.storage.clone(), p.peers.clone(), p.pool[2].clone(), p.set_start, p.replace_all)),
        Act::Filters => { let m = p.filters.clone()?; Some(Runner::Filters(slots.1.take()?, super::ctx::Ctx::new(ckb_network::SupportProtocols::Filter), p.peer, m)) }
        Act::Block => { let m = p.block.clone()?; Some(Runner::Block(slots.2.take()?, super::ctx::Ctx::new(ckb_network::SupportProtocols::Sync), p.peer, m)) }
        Act::Tick => Some(Runner::Tick(crate::protocols::FilterProtocol::new(p.storage.clone(), p.peers.clone()), super::ctx::Ctx::new(ckb_network::SupportProtocols::Filter))),
        Act::Fork => { let m = p.fork.clone()?; Some(Runner::Fork(slots.0.take()?, super::ctx::Ctx::new(ckb_network::SupportProtocols::LightClient), p.peer, m)) }
    }
}

fn split(prep: Prepared) -> (Parts, (Option<crate::protocols::LightClientProtocol>, Option<crate::protocols::FilterProtocol>, Option<crate::protocols::SyncProtocol>), World) {
    let Prepared { mut w, filters, block, fork, set_start, replace_all } = prep;
    let net = w.net.take().unwrap();
    let Net { storage, peers, lc, fp, sp, lnc, fnc, snc, .. } = net;
    let parts = Parts { storage: storage.clone(), peers: peers.clone(), lc: crate::protocols::LightClientProtocol::new(storage.clone(), peers.clone(), w.consensus.clone()), fp: crate::protocols::FilterProtocol::new(storage.clone(), peers.clone()), sp: crate::protocols::SyncProtocol::new(storage.clone(), peers.clone()), lnc, fnc, snc, peer: w.peer, pool: w.pool.clone(), filters, block, fork, set_start, replace_all };
    (parts, (Some(lc), Some(fp), Some(sp)), w)
}

/// readers: get_cells_capacity on one thread while another indexes the tip block and rolls it back again, over and over;
/// every reply must pair a capacity and a tip that existed together in the store
fn reader_case(world: u64, plan: &Plan, out: &mut Out) {
    let mut w = build(plan);
    w.exec(&Op::Init);
    let script = w.pool[0].clone();
    w.storage.update_filter_scripts(vec![crate::storage::ScriptStatus { script: script.clone(), script_type: ScriptType::Lock, block_number: 0 }], crate::storage::SetScriptsCommand::All);
    // a block whose transactions pay to the script
    let top = (3..w.main.tip()).find(|n| w.main.chain.bodies[*n as usize].iter().any(|t| t.raw().outputs().into_iter().any(|o| o.lock() == script)));
    let top = match top { Some(t) => t, None => return };
    for n in 1..top { w.storage.filter_block(w.main.chain.block(n)); }
    w.storage.update_block_number(top - 1);
    let below = w.main.chain.headers[top as usize - 1].data();
    let at = w.main.chain.headers[top as usize].data();
    let block = w.main.chain.block(top);
    let td = w.main.chain.tds[top as usize].clone();
    w.storage.update_last_state(&td, &below, &[]);
    let cap_of = |st: &Storage| -> u64 {
        let rpc = BlockFilterRpcImpl { swc: StorageWithChainData::new(st.clone(), Arc::new(Peers::new(1, 10, st.get_last_check_point())), Default::default()) };
        let key = crate::service::SearchKey { script: script.clone().into(), script_type: crate::service::ScriptType::Lock, filter: None, with_data: None, group_by_transaction: None };
        rpc.get_cells_capacity(key).map(|c| c.capacity.value()).unwrap_or(0)
    };
    let cap_without = cap_of(&w.storage);
    w.storage.filter_block(block.clone());
    w.storage.update_block_number(top);
    let cap_with = cap_of(&w.storage);
    w.storage.rollback_to_block(top);
    if cap_with == cap_without { return; }
    let stop = Arc::new(std::sync::atomic::AtomicBool::new(false));
    let (st_w, stop_w, below_w, at_w, td_w) = (w.storage.clone(), stop.clone(), below.clone(), at.clone(), td.clone());
    let writer = std::thread::spawn(move || {
        let mut cycles = 0u64;
        while !stop_w.load(std::sync::atomic::Ordering::Relaxed) {
            // the tip moves up, the block is indexed; then the block is rolled back and the tip moves down again
            st_w.update_last_state(&td_w, &at_w, &[]);
            st_w.filter_block(block.clone());
            st_w.update_block_number(top);
            st_w.rollback_to_block(top);
            st_w.update_last_state(&td_w, &below_w, &[]);
            cycles += 1;
        }
        cycles
    });
    let rpc = BlockFilterRpcImpl { swc: StorageWithChainData::new(w.storage.clone(), Arc::new(Peers::new(1, 10, w.storage.get_last_check_point())), Default::default()) };
    let mut bad: Vec<(u64, u64)> = Vec::new();
    let mut seen: std::collections::BTreeMap<(u64, u64), u64> = Default::default();
    let reads = 2500;
    for _ in 0..reads {
        let key = crate::service::SearchKey { script: script.clone().into(), script_type: crate::service::ScriptType::Lock, filter: None, with_data: None, group_by_transaction: None };
        if let Ok(c) = rpc.get_cells_capacity(key) {
            let (cap, tip) = (c.capacity.value(), c.block_number.value());
            *seen.entry((cap, tip)).or_insert(0) += 1;
            // with the block indexed the tip is the block itself; the lower tip only ever coexists with the index without it
            if cap == cap_with && tip == top - 1 { bad.push((cap, tip)); }
        }
    }
    stop.store(true, std::sync::atomic::Ordering::Relaxed);
    let cycles = writer.join().unwrap_or(0);
    let oracle = if bad.is_empty() { Ok(()) } else { Err(format!("[C17-reader-saw-mixed-state] get_cells_capacity paired the capacity that includes block #{} with tip #{} in {} of {} replies; no store state ever held both", top, top - 1, bad.len(), reads)) };
    out.case(&format!("reader-{}", world), &["reader", "get_cells_capacity"], "(VN 1)", &Val::n(1), oracle,
        &format!("world {}: {} replies while another thread indexed and rolled back block #{} {} times; (capacity, tip) pairs seen: {:?}", world, reads, top, cycles, seen));
}

/// readers, second kind: get_transactions / get_cells with `filter.script` (answered from TWO indexes: the searched script's and the
/// filter script's) on one thread while another indexes a block of many matching cells and rolls it back, over and over.  Every
/// answer must be the one of the store without the block or the one with it.
fn reader_case_filtered(world: u64, plan: &Plan, out: &mut Out) {
    let mut w = build(plan);
    w.exec(&Op::Init);
    if w.pool.len() < 2 { return; }
    let (a, b) = (w.pool[0].clone(), w.pool[1].clone());
    // a second lock script whose args extend a's: one prefix search for `a` covers the cells of both registered scripts, so a rollback
    // that is not ONE commit for all scripts shows as an answer with the cells of only one of them
    let a2 = { let mut args: Vec<u8> = a.args().raw_data().to_vec(); args.push(0x77); a.clone().as_builder().args(ckb_types::bytes::Bytes::from(args).pack()).build() };
    w.storage.update_filter_scripts(vec![
        crate::storage::ScriptStatus { script: a2.clone(), script_type: ScriptType::Lock, block_number: 0 },
        crate::storage::ScriptStatus { script: a.clone(), script_type: ScriptType::Lock, block_number: 0 },
        crate::storage::ScriptStatus { script: b.clone(), script_type: ScriptType::Type, block_number: 0 }], crate::storage::SetScriptsCommand::All);
    let top = 5u64;
    let n_txs = 60 + (world % 3) * 40;
    let txs: Vec<packed::Transaction> = (0..n_txs).map(|i| {
        let output = packed::CellOutput::new_builder().capacity((100_0000_0000u64 + i).pack()).lock(a.clone()).type_(Some(b.clone()).pack()).build();
        let output2 = packed::CellOutput::new_builder().capacity((200_0000_0000u64 + i).pack()).lock(a2.clone()).build();
        let raw = packed::RawTransaction::new_builder().outputs(vec![output, output2].pack()).outputs_data(vec![ckb_types::bytes::Bytes::new().pack(), ckb_types::bytes::Bytes::new().pack()].pack()).version((world as u32).pack()).build();
        packed::Transaction::new_builder().raw(raw).build()
    }).collect();
    let raw = packed::RawHeader::new_builder().number(top.pack()).timestamp((T0 + world).pack()).build();
    let block = packed::Block::new_builder().header(packed::Header::new_builder().raw(raw).build()).transactions(txs.pack()).build();
    let grouped = world % 2 == 1;
    let mk_rpc = |st: &Storage| BlockFilterRpcImpl { swc: StorageWithChainData::new(st.clone(), Arc::new(Peers::new(1, 10, st.get_last_check_point())), Default::default()) };
    let key = || crate::service::SearchKey { script: a.clone().into(), script_type: crate::service::ScriptType::Lock,
        filter: Some(crate::service::SearchKeyFilter { script: Some(b.clone().into()), script_len_range: None, output_data_len_range: None, output_capacity_range: None, block_range: None }),
        with_data: Some(false), group_by_transaction: Some(grouped) };
    let count_txs = |rpc: &BlockFilterRpcImpl| -> Option<u64> { rpc.get_transactions(key(), crate::service::Order::Asc, 1000u32.into(), None).ok().map(|p| p.objects.len() as u64) };
    let count_cells = |rpc: &BlockFilterRpcImpl| -> Option<u64> { rpc.get_cells(key(), crate::service::Order::Asc, 1000u32.into(), None).ok().map(|p| p.objects.len() as u64) };
    let plain_key = || crate::service::SearchKey { script: a.clone().into(), script_type: crate::service::ScriptType::Lock, filter: None, with_data: Some(false), group_by_transaction: None };
    let count_prefix = |rpc: &BlockFilterRpcImpl| -> Option<u64> { rpc.get_cells(plain_key(), crate::service::Order::Asc, 1000u32.into(), None).ok().map(|p| p.objects.len() as u64) };
    let rpc0 = mk_rpc(&w.storage);
    let (t_without, c_without, p_without) = (count_txs(&rpc0).unwrap_or(0), count_cells(&rpc0).unwrap_or(0), count_prefix(&rpc0).unwrap_or(0));
    w.storage.filter_block(block.clone());
    let (t_with, c_with, p_with) = (count_txs(&rpc0).unwrap_or(0), count_cells(&rpc0).unwrap_or(0), count_prefix(&rpc0).unwrap_or(0));
    w.storage.rollback_to_block(top);
    if t_with == t_without { return; }
    let stop = Arc::new(std::sync::atomic::AtomicBool::new(false));
    let (st_w, stop_w) = (w.storage.clone(), stop.clone());
    let writer = std::thread::spawn(move || {
        let mut cycles = 0u64;
        while !stop_w.load(std::sync::atomic::Ordering::Relaxed) {
            st_w.filter_block(block.clone());
            st_w.rollback_to_block(top);
            cycles += 1;
        }
        cycles
    });
    let rpc = mk_rpc(&w.storage);
    let reads = 600;
    let mut seen: std::collections::BTreeMap<(&'static str, u64), u64> = Default::default();
    let mut bad: Vec<String> = Vec::new();
    for _ in 0..reads {
        if let Some(t) = count_txs(&rpc) { *seen.entry(("get_transactions", t)).or_insert(0) += 1; if t != t_with && t != t_without && bad.len() < 3 { bad.push(format!("get_transactions returned {} entries (without the block: {}, with it: {})", t, t_without, t_with)); } }
        if let Some(c) = count_prefix(&rpc) { *seen.entry(("get_cells (prefix over two scripts)", c)).or_insert(0) += 1; if c != p_with && c != p_without && bad.len() < 3 { bad.push(format!("get_cells over the cells of two registered scripts returned {} cells (without the block: {}, with it: {})", c, p_without, p_with)); } }
        if let Some(c) = count_cells(&rpc) { *seen.entry(("get_cells", c)).or_insert(0) += 1; if c != c_with && c != c_without && bad.len() < 3 { bad.push(format!("get_cells returned {} cells (without the block: {}, with it: {})", c, c_without, c_with)); } }
    }
    stop.store(true, std::sync::atomic::Ordering::Relaxed);
    let cycles = writer.join().unwrap_or(0);
    let oracle = if bad.is_empty() { Ok(()) } else { Err(format!("[C17-reader-saw-mixed-state] a query over two indexes saw a part of block #{}: {}; no store state ever held that", top, bad.join("; "))) };
    out.case(&format!("reader-filtered-{}", world), &["reader", "filter.script"], "(VN 1)", &Val::n(1), oracle,
        &format!("world {}: {} get_transactions{} and {} get_cells replies with filter.script while another thread indexed and rolled back a block of {} matching cells {} times; (query, entries) seen: {:?}",
            world, reads, if grouped { " (grouped)" } else { "" }, reads, n_txs, cycles, seen));
}

pub(crate) fn run(seed: u64, n: u64, out: &mut Out) {
    let guard = ckb_systemtime::faketime();
    guard.set_faketime(T0);
    let mut rng = Rng::new(seed);
    let acts = [Act::SetScripts, Act::Filters, Act::Block, Act::Fork, Act::Tick];
    for world in 0..n {
        let len = rng.range(26, 36);
        let fork_at = rng.range(len - 12, len - 6);
        let plan = Plan { seed: seed * 7_000 + world, len, fork_at, ops: vec![], last_n: 20 };
        reader_case(world, &plan, out);
        reader_case_filtered(world, &plan, out);
        for tip_one in [false, true] {
        // (second pass: the client's stored tip is block #1 and the "fork-switch" message is a heavier proof from there - the rollback of
        // commit_prove_state's block#1 branch next to set_scripts)
        let prep = |window: bool| -> Option<Prepared> { if tip_one { prepare_one(&plan) } else { prepare_w(&plan, window) } };
        let wl = format!("{}{}", world, if tip_one { "-tip1" } else { "" });
        // ---- each operation alone: number of writes, lock probe at every write, outcome ----
        let mut n_writes: Vec<u64> = Vec::new();
        for act in acts {
            if tip_one && !(act == Act::SetScripts || act == Act::Fork) { n_writes.push(0); continue; }
            let prep = match prep(act == Act::Tick) { Some(p) => p, None => { n_writes.push(0); continue; } };
            let (parts, mut slots, _w) = split(prep);
            let mut po = Some(parts);
            let runner = match take_runner(&mut po, act, &mut slots) { Some(r) => r, None => { n_writes.push(0); continue; } };
            let peers = po.as_ref().unwrap().peers.clone();
            let flags: Arc<std::sync::Mutex<Vec<bool>>> = Default::default();
            let f2 = flags.clone();
            let (tx, rx) = channel();
            std::thread::spawn(move || {
                verif_hook::ON_WRITE.with(|f| *f.borrow_mut() = Some(Box::new(move |_k| { let held = peers.matched_blocks().try_write().is_err(); f2.lock().unwrap().push(held); })));
                let ok = runner.go();
                verif_hook::ON_WRITE.with(|f| *f.borrow_mut() = None);
                let _ = tx.send(ok);
            });
            let fin = rx.recv_timeout(Duration::from_secs(5));
            let fl = flags.lock().unwrap().clone();
            n_writes.push(fl.len() as u64);
            let oracle = match fin { Ok(true) => Ok(()), Ok(false) => Err(format!("[C10-handler-panic] {} panicked: {}", act.name(), super::last_panic())), Err(_) => Err(format!("[C17-deadlock] {} alone does not finish", act.name())) };
            out.case(&format!("split-{}-{}", wl, act.name()), &["lock-split", act.name()], &(if tip_one { "(VN 1)".to_string() } else { format!("(expected_split {} {})", act.kind(), fl.len()) }), &(if tip_one { Val::n(1) } else { Val::l(fl.iter().map(|b| Val::b(*b)).collect()) }), oracle,
                &format!("world {}: {} makes {} database writes; the global lock is held at {:?}", wl, act.name(), fl.len(), fl));
        }
        // ---- serial outcomes and interleavings for every ordered pair ----
        for (ia, a) in acts.iter().enumerate() {
            for (ib, b) in acts.iter().enumerate() {
                // the filter timer writes nothing: it only runs as the second operation, in the window state, next to the operations that
                // remove pending records whatever the in-memory map holds
                let window = *b == Act::Tick;
                if ia == ib || n_writes[ia] == 0 || *a == Act::Tick { continue; }
                if window && !(*a == Act::SetScripts || *a == Act::Fork) { continue; }
                if !window && n_writes[ib] == 0 { continue; }
                let serial = |first: Act, second: Act| -> Option<String> {
                    let prep = prep(window)?;
                    let (parts, mut slots, w) = split(prep);
                    let mut po = Some(parts);
                    let r1 = take_runner(&mut po, first, &mut slots)?;
                    let r2 = take_runner(&mut po, second, &mut slots)?;
                    let (tx, rx) = channel();
                    std::thread::spawn(move || { let a = r1.go(); let b = r2.go(); let _ = tx.send(a && b); });
                    rx.recv_timeout(Duration::from_secs(10)).ok()?;
                    let p = po.unwrap();
                    let chains = (w.main.chain.headers.iter().map(|h| (h.hash(), h.number())).collect::<Vec<_>>(), w.fork.chain.headers.iter().map(|h| (h.hash(), h.number())).collect::<Vec<_>>());
                    let numbers = move |h: &packed::Byte32| chains.0.iter().chain(chains.1.iter()).find(|x| &x.0 == h).map(|x| x.1);
                    Some(snapshot(&p.storage, &p.peers, &p.pool, &numbers))
                };
                let ab = serial(*a, *b);
                let ba = serial(*b, *a);
                let (ab, ba) = match (ab, ba) { (Some(x), Some(y)) => (x, y), _ => continue };
                for k in 1..=n_writes[ia] {
                    let prep = match prep(window) { Some(p) => p, None => continue };
                    let (parts, mut slots, w) = split(prep);
                    let mut po = Some(parts);
                    let (ra, rb) = match (take_runner(&mut po, *a, &mut slots), take_runner(&mut po, *b, &mut slots)) { (Some(x), Some(y)) => (x, y), _ => continue };
                    let (tx_a, rx_a) = channel::<&'static str>();
                    let (tx_resume, rx_resume) = channel::<()>();
                    let tx_a2 = tx_a.clone();
                    std::thread::spawn(move || {
                        let rx_resume = std::sync::Mutex::new(rx_resume);
                        verif_hook::ON_WRITE.with(|f| *f.borrow_mut() = Some(Box::new(move |ord| { if ord == k { let _ = tx_a2.send("paused"); let _ = rx_resume.lock().unwrap().recv_timeout(Duration::from_secs(8)); } })));
                        let ok = ra.go();
                        verif_hook::ON_WRITE.with(|f| *f.borrow_mut() = None);
                        let _ = tx_a.send(if ok { "done" } else { "panicked" });
                    });
                    let first = rx_a.recv_timeout(Duration::from_secs(5));
                    let mut problems: Vec<String> = Vec::new();
                    let (tx_b, rx_b) = channel::<bool>();
                    std::thread::spawn(move || { let ok = rb.go(); let _ = tx_b.send(ok); });
                    let mut b_done = false;
                    let mut b_while_paused = false;
                    if let Ok("paused") = first {
                        // B runs while A sits before its k-th write
                        match rx_b.recv_timeout(Duration::from_millis(250)) { Ok(ok) => { b_done = true; b_while_paused = true; if !ok { problems.push(format!("[C10-handler-panic] {} panicked while {} was paused: {}", b.name(), a.name(), super::last_panic())); } } Err(RecvTimeoutError::Timeout) => {} Err(_) => { b_done = true; } }
                        let _ = tx_resume.send(());
                        match rx_a.recv_timeout(Duration::from_secs(6)) { Ok("done") => {} Ok(_) => problems.push(format!("[C10-handler-panic] {} panicked after being resumed: {}", a.name(), super::last_panic())), Err(_) => problems.push(format!("[C17-deadlock] {} does not finish after being resumed before its write {} while {} runs", a.name(), k, b.name())) }
                    } else if first.is_err() { problems.push(format!("[C17-deadlock] {} neither reaches its write {} nor finishes", a.name(), k)); }
                    if !b_done { match rx_b.recv_timeout(Duration::from_secs(6)) { Ok(true) => {} Ok(false) => problems.push(format!("[C10-handler-panic] {} panicked: {}", b.name(), super::last_panic())), Err(_) => problems.push(format!("[C17-deadlock] {} does not finish although {} has been resumed", b.name(), a.name())) } }
                    let p = po.unwrap();
                    let chains = (w.main.chain.headers.iter().map(|h| (h.hash(), h.number())).collect::<Vec<_>>(), w.fork.chain.headers.iter().map(|h| (h.hash(), h.number())).collect::<Vec<_>>());
                    let numbers = move |h: &packed::Byte32| chains.0.iter().chain(chains.1.iter()).find(|x| &x.0 == h).map(|x| x.1);
                    if problems.is_empty() {
                        let got = snapshot(&p.storage, &p.peers, &p.pool, &numbers);
                        if got != ab && got != ba {
                            problems.push(format!("[C17-not-serializable]{} {} paused before its write {} of {}, {} run meanwhile ({}): the outcome is neither that of {};{} nor of {};{} || outcome: {} || {};{}: {} || {};{}: {}", if a.name() == "set_scripts" || b.name() == "set_scripts" { "[C09-set-scripts-interleaved]" } else { "" }, a.name(), k, n_writes[ia], b.name(), if b_while_paused { "it finished while the other was paused" } else { "it waited for the other" }, a.name(), b.name(), b.name(), a.name(), got, a.name(), b.name(), ab, b.name(), a.name(), ba));
                        }
                    }
                    let oracle = if problems.is_empty() { Ok(()) } else { Err(problems.join(" || ")) };
                    out.case(&format!("pair-{}-{}-{}-{}", wl, a.name(), b.name(), k), &["interleaving", a.name(), b.name(), if b_while_paused { "second-ran-during-pause" } else { "second-waited" }], "(VN 1)", &Val::n(1), oracle,
                        &format!("world {}: {} paused before write {} of {}, then {} started", world, a.name(), k, n_writes[ia], b.name()));
                }
            }
        }
        // ---- the RPC holds the global lock while a handler starts: the handler may only look at sync progress once it has the lock ----
        // (set_scripts is done here the way BlockFilterRpcImpl::set_scripts does it: update_filter_scripts and the clearing of the
        // in-memory map under the matched-blocks write lock; the handler is started while the lock is held and can only wait)
        for (ia, a) in acts.iter().enumerate() {
            if !(*a == Act::Filters || *a == Act::Block || *a == Act::Fork) || n_writes[ia] == 0 { continue; }
            let serial = |first: Act, second: Act| -> Option<String> {
                let prep = prep(false)?;
                let (parts, mut slots, w) = split(prep);
                let mut po = Some(parts);
                let r1 = take_runner(&mut po, first, &mut slots)?;
                let r2 = take_runner(&mut po, second, &mut slots)?;
                let (tx, rx) = channel();
                std::thread::spawn(move || { let a = r1.go(); let b = r2.go(); let _ = tx.send(a && b); });
                rx.recv_timeout(Duration::from_secs(10)).ok()?;
                let p = po.unwrap();
                let chains = (w.main.chain.headers.iter().map(|h| (h.hash(), h.number())).collect::<Vec<_>>(), w.fork.chain.headers.iter().map(|h| (h.hash(), h.number())).collect::<Vec<_>>());
                let numbers = move |h: &packed::Byte32| chains.0.iter().chain(chains.1.iter()).find(|x| &x.0 == h).map(|x| x.1);
                Some(snapshot(&p.storage, &p.peers, &p.pool, &numbers))
            };
            let (ab, ba) = match (serial(*a, Act::SetScripts), serial(Act::SetScripts, *a)) { (Some(x), Some(y)) => (x, y), _ => continue };
            let prep = match prep(false) { Some(p) => p, None => continue };
            let (parts, mut slots, w) = split(prep);
            let mut po = Some(parts);
            let ra = match take_runner(&mut po, *a, &mut slots) { Some(x) => x, None => continue };
            let p = po.unwrap();
            let mut problems: Vec<String> = Vec::new();
            let (tx_a, rx_a) = channel::<bool>();
            let mut finished_early = false;
            {
                let mut guard = p.peers.matched_blocks().write().expect("poisoned");
                std::thread::spawn(move || { let ok = ra.go(); let _ = tx_a.send(ok); });
                match rx_a.recv_timeout(Duration::from_millis(300)) { Ok(ok) => { finished_early = true; if !ok { problems.push(format!("[C10-handler-panic] {} panicked: {}", a.name(), super::last_panic())); } } Err(_) => {} }
                p.storage.update_filter_scripts(vec![crate::storage::ScriptStatus { script: p.pool[2].clone(), script_type: ScriptType::Lock, block_number: p.set_start }], if p.replace_all { crate::storage::SetScriptsCommand::All } else { crate::storage::SetScriptsCommand::Partial });
                guard.clear();
            }
            if !finished_early {
                match rx_a.recv_timeout(Duration::from_secs(6)) { Ok(true) => {} Ok(false) => problems.push(format!("[C10-handler-panic] {} panicked: {}", a.name(), super::last_panic())), Err(_) => problems.push(format!("[C17-deadlock] {} does not finish after the lock was released", a.name())) }
            }
            let chains = (w.main.chain.headers.iter().map(|h| (h.hash(), h.number())).collect::<Vec<_>>(), w.fork.chain.headers.iter().map(|h| (h.hash(), h.number())).collect::<Vec<_>>());
            let numbers = move |h: &packed::Byte32| chains.0.iter().chain(chains.1.iter()).find(|x| &x.0 == h).map(|x| x.1);
            if problems.is_empty() {
                let got = snapshot(&p.storage, &p.peers, &p.pool, &numbers);
                if got != ab && got != ba {
                    problems.push(format!("[C17-not-serializable][C09-set-scripts-interleaved] {} was started while set_scripts held the global lock ({}): the outcome is neither that of {};set_scripts nor of set_scripts;{} || outcome: {} || {};set_scripts: {} || set_scripts;{}: {}",
                        a.name(), if finished_early { "it finished without waiting for the lock" } else { "it waited" }, a.name(), a.name(), got, a.name(), ab, a.name(), ba));
                }
            }
            let oracle = if problems.is_empty() { Ok(()) } else { Err(problems.join(" || ")) };
            out.case(&format!("locked-start-{}-{}", wl, a.name()), &["interleaving", "started-under-held-lock", a.name(), if finished_early { "did-not-wait" } else { "waited" }], "(VN 1)", &Val::n(1), oracle,
                &format!("world {}: set_scripts holds the global lock, {} is started, set_scripts completes and releases", world, a.name()));
        }
        }
    }
}
