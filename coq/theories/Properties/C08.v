From LC Require Import Store.
Theorem C08_placeholder : True. Proof. exact I. Qed.
Print Assumptions C08_placeholder.
