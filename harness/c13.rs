//! C13: cell / transaction queries are exact views of the index.  A real RocksDB is filled through
//! Storage::filter_block with generated blocks (scripts sharing code hash / args prefixes), queried
//! through the RPC implementations, and compared page by page with Model/Query.v on the raw key dump.
use std::collections::HashMap;
use std::sync::{Arc, RwLock};

use ckb_jsonrpc_types::{JsonBytes, Uint32};
use ckb_types::{bytes::Bytes, core::ScriptHashType, packed, prelude::*};
use rocksdb::{ops::Iterate, IteratorMode};

use super::chain::{flat_plan, SynChain};
use super::out::{coq_list, Out, Val};
use super::prng::Rng;
use crate::protocols::{Peers, PendingTxs, CHECK_POINT_INTERVAL};
use crate::service::{BlockFilterRpc, BlockFilterRpcImpl, Order, ScriptType, SearchKey, SearchKeyFilter};
use crate::storage::{extract_raw_data, ScriptStatus, SetScriptsCommand, Storage, StorageWithChainData};
use crate::tests::utils::new_storage;

fn script(code: u8, hash_type: ScriptHashType, args: &[u8]) -> packed::Script {
    packed::Script::new_builder()
        .code_hash([code; 32].pack())
        .hash_type(hash_type.into())
        .args(Bytes::from(args.to_vec()).pack())
        .build()
}

fn bytes_term(b: &[u8]) -> String {
    coq_list(&b.iter().map(|x| format!("{}", x)).collect::<Vec<_>>())
}
fn opt_bytes_term(b: &Option<Vec<u8>>) -> String {
    match b { Some(x) => format!("(Some {})", bytes_term(x)), None => "None".into() }
}
fn range_term(r: &Option<[u64; 2]>) -> String {
    match r { Some([a, b]) => format!("(Some ({}, {}))", a, b), None => "None".into() }
}

struct World {
    storage: Storage,
    rpc: BlockFilterRpcImpl,
    txs: HashMap<packed::Byte32, packed::Transaction>,
    tx_ids: HashMap<packed::Byte32, u64>,
    pool: Vec<packed::Script>,
}

fn tx_id(w: &mut World, h: &packed::Byte32) -> u64 {
    let next = w.tx_ids.len() as u64 + 1;
    *w.tx_ids.entry(h.clone()).or_insert(next)
}

fn build_world(rng: &mut Rng) -> World {
    let storage = new_storage("verif-c13");
    let chain = SynChain::new(flat_plan(2, 4, 5), 4, 8);
    storage.init_genesis_block(chain.genesis_block());
    let arg_sets: Vec<Vec<u8>> = vec![vec![], vec![0], vec![0, 0], vec![0xab], vec![0xab, 0xcd], vec![0xab, 0xff], vec![0xff], vec![0xff, 0xff, 0xff], vec![0xab, 0xcd, 0x00, 0x00, 0x00, 0x00, 0x00, 0x00, 0x00, 0x01]];
    let mut pool = Vec::new();
    for code in [1u8, 2] {
        for ht in [ScriptHashType::Data, ScriptHashType::Type] {
            for a in &arg_sets {
                if rng.chance(1, 4) { pool.push(script(code, ht, a)); }
            }
        }
    }
    if pool.len() < 3 { pool.push(script(1, ScriptHashType::Data, &[0xab])); pool.push(script(1, ScriptHashType::Data, &[0xab, 0xcd])); pool.push(script(1, ScriptHashType::Data, &[])); }
    // register most of the pool both as lock and type scripts
    let mut statuses = Vec::new();
    for s in &pool {
        if rng.chance(9, 10) { statuses.push(ScriptStatus { script: s.clone(), script_type: crate::storage::ScriptType::Lock, block_number: 0 }); }
        if rng.chance(4, 5) { statuses.push(ScriptStatus { script: s.clone(), script_type: crate::storage::ScriptType::Type, block_number: 0 }); }
    }
    storage.update_filter_scripts(statuses, SetScriptsCommand::All);
    let peers = Arc::new(Peers::new(1, CHECK_POINT_INTERVAL, storage.get_last_check_point()));
    let swc = StorageWithChainData::new(storage.clone(), peers, Arc::new(RwLock::new(PendingTxs::default())));
    let mut w = World { storage: storage.clone(), rpc: BlockFilterRpcImpl { swc }, txs: HashMap::new(), tx_ids: HashMap::new(), pool };
    // blocks
    let mut live: Vec<(packed::Byte32, u32)> = Vec::new();
    let n_blocks = rng.range(8, 16);
    for number in 1..=n_blocks {
        let mut txs = Vec::new();
        for _ in 0..rng.range(2, 4) {
            let mut inputs = Vec::new();
            for _ in 0..rng.range(0, 2) {
                if !live.is_empty() {
                    let k = rng.below(live.len() as u64) as usize;
                    let (h, i) = live.remove(k);
                    inputs.push(packed::CellInput::new(packed::OutPoint::new(h, i), 0));
                }
            }
            let n_out = rng.range(2, 5);
            let tx_lock = rng.pick(&w.pool).clone();
            let mut outputs = Vec::new();
            let mut datas = Vec::new();
            for _ in 0..n_out {
                let lock = if rng.chance(2, 3) { tx_lock.clone() } else { rng.pick(&w.pool).clone() };
                let ty: Option<packed::Script> = if rng.chance(2, 3) { Some(rng.pick(&w.pool).clone()) } else { None };
                let cap = match rng.below(4) { 0 => 0u64, 1 => rng.range(1, 1000), 2 => 6_100_000_000, _ => rng.range(1, 1 << 40) };
                outputs.push(packed::CellOutput::new_builder().capacity(cap.pack()).lock(lock).type_(ty.pack()).build());
                datas.push(Bytes::from(vec![7u8; rng.range(0, 9) as usize]).pack());
            }
            let raw = packed::RawTransaction::new_builder()
                .inputs(inputs.pack()).outputs(outputs.pack()).outputs_data(datas.pack())
                .version((rng.next() as u32).pack()).build();
            let tx = packed::Transaction::new_builder().raw(raw).build();
            let h = tx.calc_tx_hash();
            for i in 0..n_out { if rng.chance(3, 4) { live.push((h.clone(), i as u32)); } }
            w.txs.insert(h, tx.clone());
            txs.push(tx);
        }
        let raw = packed::RawHeader::new_builder().number(number.pack()).timestamp((number * 10).pack()).build();
        let header = packed::Header::new_builder().raw(raw).build();
        let block = packed::Block::new_builder().header(header).transactions(txs.pack()).build();
        storage.filter_block(block);
    }
    w
}

struct Dump {
    cells: HashMap<u8, Vec<(Vec<u8>, packed::Byte32)>>, // tag -> (key, tx hash) in key order
    first: Vec<u8>,
    last: Vec<u8>,
}

fn dump(storage: &Storage) -> Dump {
    let mut cells: HashMap<u8, Vec<(Vec<u8>, packed::Byte32)>> = HashMap::new();
    let mut first = Vec::new();
    let mut last = Vec::new();
    for (k, v) in storage.db.iterator(IteratorMode::Start) {
        if first.is_empty() { first = k.to_vec(); }
        last = k.to_vec();
        if [32u8, 64, 96, 128].contains(&k[0]) {
            cells.entry(k[0]).or_default().push((k.to_vec(), packed::Byte32::from_slice(&v).unwrap()));
        }
    }
    Dump { cells, first, last }
}

fn cell_attrs(w: &World, key: &[u8], h: &packed::Byte32) -> (Vec<u8>, Option<Vec<u8>>, u64, u64) {
    let tx = &w.txs[h];
    let idx = u32::from_be_bytes(key[key.len() - 4..].try_into().unwrap()) as usize;
    let out = tx.raw().outputs().get(idx).unwrap();
    let data = tx.raw().outputs_data().get(idx).unwrap();
    (extract_raw_data(&out.lock()), out.type_().to_opt().map(|s| extract_raw_data(&s)), data.len() as u64, out.capacity().unpack())
}

pub(crate) fn run(seed: u64, n: u64, out: &mut Out) {
    let mut rng = Rng::new(seed);
    let worlds = (n / 30).max(1);
    let mut idx = 0u64;
    let mut defined: std::collections::HashSet<String> = Default::default();
    for world_no in 0..worlds {
        let mut w = build_world(&mut rng);
        let d = dump(&w.storage);
        for _ in 0..30 {
            // ---- the query ----
            let is_lock = rng.chance(1, 2);
            let base = rng.pick(&w.pool).clone();
            let mut args: Vec<u8> = base.args().raw_data().to_vec();
            match rng.below(12) { 0 | 4 | 5 if !args.is_empty() => { args.pop(); } 1 => args.push(0), 2 => args.push(0xff), 3 | 6 => args.clear(), _ => {} }
            let search = packed::Script::new_builder().code_hash(base.code_hash()).hash_type(base.hash_type()).args(Bytes::from(args.clone()).pack()).build();
            let raw = extract_raw_data(&search);
            let asc = rng.chance(1, 2);
            let limit = *rng.pick(&[1u32, 1, 2, 3, 5, 1000]);
            let with_filter = rng.chance(2, 3);
            let f_script: Option<packed::Script> = if with_filter && rng.chance(1, 2) {
                let b = rng.pick(&w.pool).clone();
                let mut a = b.args().raw_data().to_vec();
                if rng.chance(1, 3) && !a.is_empty() { a.pop(); }
                Some(b.as_builder().args(Bytes::from(a).pack()).build())
            } else { None };
            // ranges are half open; the empty ones ([0,0), [a,a)), inverted ones and one-element ones at the lower end ([0,1)) are strata of their own
            let rr = |rng: &mut Rng, hi: u64| -> Option<[u64; 2]> { if rng.chance(1, 3) { match rng.below(10) {
                0 => Some([0, 0]),
                1 => { let a = rng.range(0, hi); Some([a, a]) }
                2 => { let a = rng.range(1, hi + 1); Some([a, rng.range(0, a - 1)]) }
                3 => Some([0, 1]),
                _ => { let a = if rng.chance(1, 2) { 0 } else { rng.range(0, hi) }; let b = if rng.chance(1, 2) { hi + 2 } else { rng.range(0, hi + 2) }; Some([a, b]) }
            } } else { None } };
            let f_len = if with_filter { rr(&mut rng, 45) } else { None };
            let kind = rng.below(4); // 0 cells, 1 txs ungrouped, 2 txs grouped, 3 capacity
            let f_data = if with_filter { if kind == 3 && rng.chance(1, 2) { let a = rng.range(0, 9); Some([a, a + rng.range(1, 6)]) } else { rr(&mut rng, 9) } } else { None };
            let f_cap = if with_filter { match rng.below(5) { 0 => Some([0u64, 1000]), 1 => Some([1000, 6_100_000_001]), 2 => Some([0u64, 0]), 3 => Some([0u64, 1]), _ => None } } else { None };
            // block ranges often: with a prefix search over several scripts the keys are NOT ordered by block number
            let f_block = if with_filter { match rng.below(3) { 0 => None, 1 => rr(&mut rng, 10), _ => { let a = rng.range(0, 8); Some([a, a + rng.range(1, 6)]) } } } else { None };
            // single-filter stream: half of the filtered queries carry exactly one of the five filters, so that each filter decides
            // the answer on its own (with all five drawn independently most answers are empty whatever a filter does)
            let (f_script, f_len, f_data, f_cap, f_block) = if with_filter && rng.chance(1, 2) {
                // (transaction queries only know the script and the block range filter)
                match if kind == 1 || kind == 2 { *rng.pick(&[0u64, 0, 4]) } else { rng.below(5) } {
                    0 => (f_script.or_else(|| { let b = rng.pick(&w.pool).clone(); Some(b) }), None, None, None, None),
                    1 => (None, Some(f_len.unwrap_or([if rng.chance(1, 2) { 0 } else { rng.range(0, 40) }, rng.range(0, 47)])), None, None, None),
                    2 => (None, None, Some(f_data.unwrap_or([rng.range(0, 3), rng.range(0, 10)])), None, None),
                    3 => (None, None, None, Some(f_cap.unwrap_or([0, 1000])), None),
                    _ => (None, None, None, None, Some(f_block.unwrap_or([rng.range(0, 5), rng.range(0, 12)]))),
                }
            } else { (f_script, f_len, f_data, f_cap, f_block) };
            let tag: u8 = match (kind, is_lock) { (0, true) | (3, true) => 32, (0, false) | (3, false) => 64, (_, true) => 96, (_, false) => 128 };
            let mk_key = |cursor_filter: bool| -> SearchKey {
                let filter = if with_filter {
                    Some(SearchKeyFilter {
                        script: f_script.clone().map(Into::into),
                        script_len_range: if cursor_filter { f_len.map(|r| [r[0].into(), r[1].into()]) } else { None },
                        output_data_len_range: if cursor_filter { f_data.map(|r| [r[0].into(), r[1].into()]) } else { None },
                        output_capacity_range: if cursor_filter { f_cap.map(|r| [r[0].into(), r[1].into()]) } else { None },
                        block_range: f_block.map(|r| [r[0].into(), r[1].into()]),
                    })
                } else { None };
                SearchKey { script: search.clone().into(), script_type: if is_lock { ScriptType::Lock } else { ScriptType::Type }, filter, with_data: Some(false), group_by_transaction: Some(kind == 2) }
            };
            // ---- the dump as model terms ----
            let entries = d.cells.get(&tag).cloned().unwrap_or_default();
            let sentinel_lo = if d.first[0] < tag { Some(d.first.clone()) } else { None };
            let sentinel_hi = if d.last[0] > tag { Some(d.last.clone()) } else { None };
            let is_cell = kind == 0 || kind == 3;
            let mut db_terms: Vec<String> = Vec::new();
            if let Some(k) = &sentinel_lo { db_terms.push(if is_cell { format!("mkCE {} 0 [] None 0 0", bytes_term(k)) } else { format!("mkTE {} 0", bytes_term(k)) }); }
            for (k, h) in &entries {
                let id = tx_id(&mut w, h);
                if is_cell {
                    let (lock, ty, dl, cap) = cell_attrs(&w, k, h);
                    db_terms.push(format!("mkCE {} {} {} {} {} {}", bytes_term(k), id, bytes_term(&lock), opt_bytes_term(&ty), dl, cap));
                } else {
                    db_terms.push(format!("mkTE {} {}", bytes_term(k), id));
                }
            }
            if let Some(k) = &sentinel_hi { db_terms.push(if is_cell { format!("mkCE {} 0 [] None 0 0", bytes_term(k)) } else { format!("mkTE {} 0", bytes_term(k)) }); }
            let db_name = format!("db_w{}_{}_{}", world_no, tag, if is_cell { "c" } else { "t" });
            if !defined.contains(&db_name) { out.def(&db_name, &coq_list(&db_terms)); defined.insert(db_name.clone()); }
            let db_term = db_name;
            let cfilter = format!("(mkCF {} {} {} {} {})", opt_bytes_term(&f_script.as_ref().map(extract_raw_data)), range_term(&f_len), range_term(&f_data), range_term(&f_cap), range_term(&f_block));
            // filter.script for transactions: suffixes (last 17 bytes) of the keys of that script in the other tx index
            let other_tag: u8 = if is_lock { 128 } else { 96 };
            let fs_term = match &f_script {
                Some(s) => {
                    let mut pfx = vec![other_tag];
                    pfx.extend_from_slice(&extract_raw_data(s));
                    let l: Vec<String> = d.cells.get(&other_tag).cloned().unwrap_or_default().iter()
                        .filter(|(k, _)| k.len() == pfx.len() + 17 && k.starts_with(&pfx)).map(|(k, _)| bytes_term(&k[k.len() - 17..])).collect();
                    format!("(Some {})", coq_list(&l))
                }
                None => "None".to_string(),
            };
            let describe = format!("script_type={} code={} hash_type={} args={:02x?} order={} limit={} filter: script={:?} len={:?} data={:?} cap={:?} block={:?}",
                if is_lock { "lock" } else { "type" }, search.code_hash().as_slice()[0], search.hash_type().as_slice()[0], args, if asc { "asc" } else { "desc" }, limit,
                f_script.as_ref().map(|s| format!("{:02x?}", extract_raw_data(s))), f_len, f_data, f_cap, f_block);

            if kind == 3 {
                let r = w.rpc.get_cells_capacity(mk_key(true)).unwrap();
                let cap: u64 = r.capacity.into();
                // independent: sum over get_cells with a huge limit
                let page = w.rpc.get_cells(mk_key(true), Order::Asc, Uint32::from(100_000u32), None).unwrap();
                let j = serde_json::to_value(&page.objects).unwrap();
                let sum: u64 = j.as_array().unwrap().iter().map(|c| u64::from_str_radix(c["output"]["capacity"].as_str().unwrap().trim_start_matches("0x"), 16).unwrap()).sum();
                let tip = w.storage.get_tip_header();
                let bn: u64 = r.block_number.into();
                let oracle = if sum != cap { Err(format!("[C13-capacity-sum] get_cells_capacity {} but the cells of get_cells sum to {}", cap, sum)) }
                    else if bn != Unpack::<u64>::unpack(&tip.raw().number()) || r.block_hash != tip.calc_header_hash().unpack() { Err("[C13-capacity-tip] tip of get_cells_capacity is not the stored tip".to_string()) } else { Ok(()) };
                out.case(&format!("q-{}", idx), &["capacity"], &format!("(run_capacity {} {} {} {} {} {})", tag, bytes_term(&raw), args.len(), !is_lock, cfilter, db_term),
                    &Val::n(cap), oracle, &format!("get_cells_capacity {}", describe));
                idx += 1;
                continue;
            }
            // ---- follow the cursor page by page ----
            let mut cursor: Option<Vec<u8>> = None;
            let mut seen: Vec<String> = Vec::new();
            let mut problems: Vec<String> = Vec::new();
            for page_no in 0..400 {
                let order = if asc { Order::Asc } else { Order::Desc };
                let after = cursor.clone().map(JsonBytes::from_vec);
                let cursor_term = match &cursor { Some(c) => format!("(Some {})", bytes_term(c)), None => "None".to_string() };
                let (objs, last): (serde_json::Value, Vec<u8>) = if kind == 0 {
                    let p = w.rpc.get_cells(mk_key(true), order, Uint32::from(limit), after).unwrap();
                    (serde_json::to_value(&p.objects).unwrap(), p.last_cursor.as_bytes().to_vec())
                } else {
                    let p = w.rpc.get_transactions(mk_key(false), order, Uint32::from(limit), after).unwrap();
                    (serde_json::to_value(&p.objects).unwrap(), p.last_cursor.as_bytes().to_vec())
                };
                let hexu = |v: &serde_json::Value| u64::from_str_radix(v.as_str().unwrap().trim_start_matches("0x"), 16).unwrap();
                let mut items: Vec<Val> = Vec::new();
                let arr = objs.as_array().unwrap().clone();
                for o in &arr {
                    match kind {
                        0 => {
                            let h: packed::Byte32 = { let s = o["out_point"]["tx_hash"].as_str().unwrap(); let b = hex_to_bytes(s); packed::Byte32::from_slice(&b).unwrap() };
                            let id = tx_id(&mut w, &h);
                            let v = Val::l(vec![Val::n(hexu(&o["block_number"])), Val::n(hexu(&o["tx_index"])), Val::n(hexu(&o["out_point"]["index"])), Val::n(id), Val::n(hexu(&o["output"]["capacity"]))]);
                            seen.push(v.to_coq());
                            items.push(v);
                        }
                        1 => {
                            let h: packed::Byte32 = packed::Byte32::from_slice(&hex_to_bytes(o["transaction"]["hash"].as_str().unwrap())).unwrap();
                            let id = tx_id(&mut w, &h);
                            let ty = if o["io_type"].as_str().unwrap() == "input" { 0 } else { 1 };
                            let v = Val::l(vec![Val::n(hexu(&o["block_number"])), Val::n(hexu(&o["tx_index"])), Val::n(hexu(&o["io_index"])), Val::n(ty), Val::n(id)]);
                            seen.push(v.to_coq());
                            items.push(v);
                        }
                        _ => {
                            let h: packed::Byte32 = packed::Byte32::from_slice(&hex_to_bytes(o["transaction"]["hash"].as_str().unwrap())).unwrap();
                            let id = tx_id(&mut w, &h);
                            let cells: Vec<Val> = o["cells"].as_array().unwrap().iter().map(|c| {
                                let ty = if c[0].as_str().unwrap() == "input" { 0 } else { 1 };
                                seen.push(format!("{}:{}:{}", id, ty, hexu(&c[1])));
                                Val::l(vec![Val::n(ty), Val::n(hexu(&c[1]))])
                            }).collect();
                            items.push(Val::l(vec![Val::n(id), Val::l(cells)]));
                        }
                    }
                }
                let v = Val::l(vec![Val::l(items), Val::l(last.iter().map(|b| Val::n(*b)).collect())]);
                let model = match kind {
                    0 => format!("(run_get_cells {} {} {} {} {} {} {} {} {})", tag, bytes_term(&raw), args.len(), !is_lock, cfilter, asc, limit, cursor_term, db_term),
                    1 => format!("(run_get_txs {} {} {} {} {} {} {} {} {})", tag, bytes_term(&raw), args.len(), fs_term, range_term(&f_block), asc, limit, cursor_term, db_term),
                    _ => format!("(run_get_txs_grouped {} {} {} {} {} {} {} {} {})", tag, bytes_term(&raw), args.len(), fs_term, range_term(&f_block), asc, limit, cursor_term, db_term),
                };
                let finished = arr.is_empty();
                // the oracle verdict is attached to the last page of the walk
                let mut oracle = Ok(());
                if finished || page_no == 399 {
                    // independent expectation from the raw dump (cells and ungrouped transactions)
                    if kind == 0 || kind == 1 {
                        let mut pfx = vec![tag];
                        pfx.extend_from_slice(&raw);
                        let mut expect: Vec<String> = Vec::new();
                        for (k, h) in &entries {
                            if !k.starts_with(&pfx) { continue; }
                            let id = tx_id(&mut w, h);
                            if kind == 0 {
                                let (lock, ty, dl, cap) = cell_attrs(&w, k, h);
                                let other = if is_lock { ty.clone() } else { Some(lock.clone()) };
                                let bn = u64::from_be_bytes(k[k.len() - 16..k.len() - 8].try_into().unwrap());
                                let ok = f_script.as_ref().map(|s| other.as_ref().map(|o| o.starts_with(&extract_raw_data(s))).unwrap_or(false)).unwrap_or(true)
                                    && f_len.map(|r| { let l = other.as_ref().map(|o| o.len() as u64).unwrap_or(0); l >= r[0] && l <= r[1] }).unwrap_or(true)
                                    && f_data.map(|r| dl >= r[0] && dl < r[1]).unwrap_or(true)
                                    && f_cap.map(|r| cap >= r[0] && cap < r[1]).unwrap_or(true)
                                    && f_block.map(|r| bn >= r[0] && bn < r[1]).unwrap_or(true);
                                if ok {
                                    let ti = u32::from_be_bytes(k[k.len() - 8..k.len() - 4].try_into().unwrap());
                                    let oi = u32::from_be_bytes(k[k.len() - 4..].try_into().unwrap());
                                    expect.push(Val::l(vec![Val::n(bn), Val::n(ti), Val::n(oi), Val::n(id), Val::n(cap)]).to_coq());
                                }
                            } else {
                                let bn = u64::from_be_bytes(k[k.len() - 17..k.len() - 9].try_into().unwrap());
                                let ti = u32::from_be_bytes(k[k.len() - 9..k.len() - 5].try_into().unwrap());
                                let ii = u32::from_be_bytes(k[k.len() - 5..k.len() - 1].try_into().unwrap());
                                let ty = k[k.len() - 1];
                                let ok = f_block.map(|r| bn >= r[0] && bn < r[1]).unwrap_or(true)
                                    && f_script.as_ref().map(|s| {
                                        let mut ok_key = vec![other_tag];
                                        ok_key.extend_from_slice(&extract_raw_data(s));
                                        ok_key.extend_from_slice(&k[k.len() - 17..]);
                                        d.cells.get(&other_tag).map(|v| v.iter().any(|(kk, _)| kk == &ok_key)).unwrap_or(false)
                                    }).unwrap_or(true);
                                if ok { expect.push(Val::l(vec![Val::n(bn), Val::n(ti), Val::n(ii), Val::n(ty), Val::n(id)]).to_coq()); }
                            }
                        }
                        if !asc { expect.reverse(); }
                        if !finished { problems.push("the walk did not terminate within 400 pages".into()); }
                        else if seen != expect {
                            problems.push(format!("following last_cursor yields {} entries, the index holds {} matching ones (order {}){}", seen.len(), expect.len(), if asc { "asc" } else { "desc" },
                                if { let mut a = seen.clone(); a.sort(); let mut b = expect.clone(); b.sort(); a == b } { ": same entries, different order" } else { "" }));
                        }
                    }
                    if !problems.is_empty() { oracle = Err(format!("[C13-pages] {}", problems.join("; "))); }
                }
                out.case(&format!("q-{}-p{}", idx, page_no), &[match kind { 0 => "cells", 1 => "txs", _ => "txs-grouped" }, if asc { "asc" } else { "desc" }, if cursor.is_some() { "with-cursor" } else { "first-page" }],
                    &model, &v, oracle, &format!("{} page {} cursor {:02x?}", describe, page_no, cursor));
                if finished { break; }
                cursor = Some(last);
            }
            idx += 1;
        }
    }
}

fn hex_to_bytes(s: &str) -> Vec<u8> {
    let s = s.trim_start_matches("0x");
    (0..s.len() / 2).map(|i| u8::from_str_radix(&s[2 * i..2 * i + 2], 16).unwrap()).collect()
}
