(* Lemmas about Model/Matching.v (C01 shape part). *)
From Coq Require Import NArith Lia List Bool Sorted Nnat.
From LC Require Import Matching.
Import ListNotations.
Open Scope N_scope.
Arguments N.add : simpl never.
Arguments N.sub : simpl never.
Arguments N.mul : simpl never.
Arguments N.leb : simpl never.
Arguments N.ltb : simpl never.
Arguments N.eqb : simpl never.

Definition covers (h : mhdr) (d : N) : Prop :=
  exists t, td h = Ok t /\ h_ptd h < d /\ d <= t.

Lemma drop_le_spec cur ds :
  exists pre, ds = pre ++ drop_le cur ds /\ Forall (fun d => d <= cur) pre.
Proof.
  induction ds as [|d tl IH]; cbn [drop_le].
  - exists []. split; [reflexivity | constructor].
  - destruct (N.leb_spec d cur) as [Hle|Hgt].
    + destruct IH as [pre [E F]]. exists (d :: pre). split; [cbn; f_equal; exact E | constructor; assumption].
    + exists []. split; [reflexivity | constructor].
Qed.

(* one sampled header: it covers the first pending difficulty; with a sorted request every
   difficulty it consumes lies in (parent_td, td] *)
Lemma consume_spec parent cur ds ds' :
  consume parent cur ds = (true, ds') ->
  exists d pre, ds = d :: pre ++ ds' /\ parent < d /\ d <= cur /\ Forall (fun x => x <= cur) pre.
Proof.
  unfold consume. destruct ds as [|d tl]; [discriminate|].
  destruct (andb _ _) eqn:C; [|discriminate].
  apply andb_true_iff in C. destruct C as [C1 C2]. apply N.ltb_lt in C1. apply N.leb_le in C2.
  intros E; inversion E; subst ds'.
  destruct (drop_le_spec cur tl) as [pre [E' F]].
  exists d, pre. repeat split; try assumption. f_equal. exact E'.
Qed.

Lemma consume_false parent cur ds ds' : consume parent cur ds = (false, ds') -> ds' = ds.
Proof.
  unfold consume. destruct ds as [|d tl]; [intros E; inversion E; reflexivity|].
  destruct (andb _ _); intros E; inversion E; reflexivity.
Qed.

Lemma check_samples_spec hs : forall ds rest,
  check_samples hs ds = Ok rest ->
  exists used, ds = used ++ rest /\
    (forall h, In h hs -> exists d, In d used /\ covers h d) /\
    (StronglySorted N.le ds -> forall d, In d used -> exists h, In h hs /\ covers h d).
Proof.
  induction hs as [|h tl IH]; intros ds rest; cbn [check_samples].
  - intros E; inversion E; subst. exists []. split; [reflexivity|]. split; [intros ? []|intros _ ? []].
  - destruct (td h) as [cur| |] eqn:T; cbn [bind]; try discriminate.
    destruct (consume (h_ptd h) cur ds) as [valid ds'] eqn:C.
    destruct valid; [|discriminate].
    intros E. destruct (consume_spec _ _ _ _ C) as [d [pre [Eds [P1 [P2 F]]]]].
    destruct (IH ds' rest E) as [used [Eu [Hcov Hsorted]]].
    exists (d :: pre ++ used). split; [subst ds ds'; cbn; rewrite <- app_assoc; reflexivity|]. split.
    + intros h' [->|Hin].
      * exists d. split; [left; reflexivity|]. exists cur. auto.
      * destruct (Hcov h' Hin) as [d' [I1 I2]]. exists d'. split; [right; apply in_or_app; right; exact I1 | exact I2].
    + intros Hs d' [->|Hin].
      * exists h. split; [left; reflexivity|]. exists cur. auto.
      * apply in_app_or in Hin. destruct Hin as [Hp|Hu].
        -- exists h. split; [left; reflexivity|]. exists cur. split; [exact T|]. split.
           ++ subst ds. inversion Hs as [|? ? _ Hall]; subst. rewrite Forall_forall in Hall.
              assert (d <= d') by (apply Hall; apply in_or_app; left; exact Hp). lia.
           ++ rewrite Forall_forall in F. apply F. exact Hp.
        -- assert (Hs' : StronglySorted N.le ds').
           { subst ds. inversion Hs as [|? ? Hs1 _]; subst. clear - Hs1.
             induction pre as [|p pre IHp]; [exact Hs1|]. inversion Hs1; subst. apply IHp. assumption. }
           destruct (Hsorted Hs' d' Hu) as [h' [I1 I2]]. exists h'. split; [right; exact I1 | exact I2].
Qed.

Lemma nth_hdr_ok hs i h : nth_hdr hs i = Ok h -> nth_error hs (N.to_nat i) = Some h.
Proof. unfold nth_hdr. destruct (nth_error hs (N.to_nat i)); [intros E; inversion E; reflexivity | discriminate]. Qed.

Lemma count_while_le p hs : count_while p hs <= lenN hs.
Proof.
  unfold lenN. induction hs as [|h tl IH]; cbn [count_while length]; [lia|].
  destruct (p h); lia.
Qed.

Lemma count_below_le b hs c : count_below b hs = Ok c -> c <= lenN hs.
Proof.
  unfold lenN. revert c; induction hs as [|h tl IH]; intros c; cbn [count_below length].
  - intros E; inversion E; subst; apply N.le_0_l.
  - destruct (td h) as [t| |]; cbn [bind]; try discriminate.
    destruct (t <? b); [|intros E; inversion E; subst; apply N.le_0_l].
    destruct (count_below b tl) as [c'| |]; cbn [bind]; try discriminate.
    intros E; inversion E; subst. specialize (IH c' eq_refl). rewrite Nat2N.inj_succ. lia.
Qed.

(* the shape an accepted response has *)
Record shape (last_n start boundary : N) (ds : list N) (hs : list mhdr) (last_number r s l : N) : Prop := {
  sh_total : r + s + l = lenN hs;
  sh_sorted : unsorted hs = false;
  sh_reorg_count : r = count_while (fun h => h_num h <? start) hs;
  sh_reorg : r <> 0 ->
    (r = last_n \/ exists f, nth_error hs 0 = Some f /\ h_num f = 1) /\
    exists lr, nth_error hs (N.to_nat (r - 1)) = Some lr /\ h_num lr = start - 1;
  sh_no_samples : s = 0 -> 0 < l ->
    exists f lst, nth_error hs (N.to_nat r) = Some f /\ h_num f = start /\
                  nth_error hs (N.to_nat (lenN hs - 1)) = Some lst /\ h_num lst + 1 = last_number;
  sh_samples : s <> 0 ->
    last_n <= l /\
    exists fl fl_td rest,
      nth_error hs (N.to_nat (r + s)) = Some fl /\ td fl = Ok fl_td /\
      check_samples (slice hs r s) (take_below fl_td ds) = Ok rest /\
      (forall next tl, rest = next :: tl -> h_ptd fl < next)
}.

Lemma matched_shape last_n start boundary ds hs last_number r s l :
  matched last_n start boundary ds hs last_number = Ok (r, s, l) ->
  shape last_n start boundary ds hs last_number r s l.
Proof.
  unfold matched. destruct hs as [|first tl]; [discriminate|].
  set (hs := first :: tl) in *.
  destruct (unsorted hs) eqn:U; [discriminate|].
  set (total := lenN hs). set (reorg := count_while (fun h => h_num h <? start) hs).
  pose proof (count_while_le (fun h => h_num h <? start) hs) as Hreorg. fold reorg in Hreorg. fold total in Hreorg.
  (* reorg gate *)
  destruct (N.eqb_spec reorg 0) as [R0|R0]; cbn [bind];
    [ | destruct (andb _ _) eqn:A; [discriminate|];
        destruct (nth_hdr hs (reorg - 1)) as [lr| |] eqn:NL; cbn [bind]; try discriminate;
        destruct (N.eqb_spec (h_num lr) (start - 1)) as [EL|]; [|discriminate]; cbn [bind] ].
  all: destruct (N.ltb_spec last_n (total - reorg)) as [Hbig|Hsmall].
  all: try (destruct (count_below boundary hs) as [before| |] eqn:CB; cbn [bind]; try discriminate;
            pose proof (count_below_le _ _ _ CB) as Hbefore; fold total in Hbefore).
  all: try (destruct (N.ltb_spec last_n (total - before)) as [Hl|Hl]).
  all: try (match goal with |- context [if ?b <? ?r then Err E_INVALID_REORG else _] => destruct (N.ltb_spec b r) as [Hrb|Hrb]; cbn [bind]; try discriminate end).
  all: cbn [bind].
  all: match goal with
       | |- context [if ?sv =? 0 then _ else _] => destruct (N.eqb_spec sv 0) as [S0|S0]
       end.
  all: try (match goal with |- context [if 0 <? ?lv then _ else _] => destruct (N.ltb_spec 0 lv) as [L0|L0] end).
  all: try (destruct (nth_hdr hs reorg) as [f| |] eqn:NF; cbn [bind]; try discriminate;
            destruct (nth_hdr hs (total - 1)) as [lst| |] eqn:NLst; cbn [bind]; try discriminate;
            destruct (N.eqb_spec (h_num f) start) as [EF|]; cbn [negb]; try discriminate;
            destruct ((h_num lst + 1 <=? U64MAX) && (h_num lst + 1 =? last_number)) eqn:ELn0; try discriminate;
            apply andb_true_iff in ELn0; destruct ELn0 as [_ ELn]; apply N.eqb_eq in ELn).
  all: try (match goal with
            | |- context [nth_hdr ?hh (?rr + ?sv)] =>
                destruct (nth_hdr hh (rr + sv)) as [fl| |] eqn:NFl; cbn [bind]; try discriminate;
                destruct (td fl) as [fl_td| |] eqn:TFl; cbn [bind]; try discriminate;
                destruct (check_samples _ _) as [rest| |] eqn:CS; cbn [bind]; try discriminate
            end).
  all: try (destruct rest as [|next rtl]).
  all: try (match goal with |- context [if ?a <=? ?b then Err _ else _] => destruct (N.leb_spec a b); try discriminate end).
  all: cbn [bind]; intros HRes; inversion HRes; subst r s l; clear HRes.
  all: constructor; try assumption; try reflexivity; try lia.
  all: try (intros Hr; exfalso; lia).
  all: try (intros Hs0; exfalso; lia).
  all: try (intros Hs0 Hl0; exfalso; lia).
  (* remaining obligations: reorg facts, no-sample facts, sample facts *)
  all: try (intros _; split;
            [ apply andb_false_iff in A; destruct A as [A|A];
              [left; apply negb_false_iff in A; apply N.eqb_eq in A; exact A
              |right; exists first; split; [reflexivity | apply negb_false_iff in A; apply N.eqb_eq in A; exact A]]
            | exists lr; split; [apply nth_hdr_ok; exact NL | exact EL] ]).
  all: try (intros _ _; exists f, lst; repeat split;
            [apply nth_hdr_ok; exact NF | exact EF | apply nth_hdr_ok; exact NLst | exact ELn]).
  all: try (intros _; split; [lia|]; eexists fl, fl_td, _; repeat split;
            [apply nth_hdr_ok; exact NFl | exact TFl | exact CS | intros ? ? E; inversion E; subst; lia || discriminate]).
Qed.

(* ------------------------------------------------------------------------------------ *)
(* no panic: with a configured last-N >= 1 and headers whose total difficulties do not overflow
   (the handlers reject the others up front), check_if_response_is_matched always returns *)

Definition td_ok (h : mhdr) : Prop := is_ok (td h) = true.

Lemma nth_hdr_in_range hs i : i < lenN hs -> exists h, nth_hdr hs i = Ok h /\ In h hs.
Proof.
  unfold lenN, nth_hdr. intros H.
  destruct (nth_error hs (N.to_nat i)) as [h|] eqn:E.
  - exists h. split; [reflexivity | eapply nth_error_In; eauto].
  - apply nth_error_None in E. lia.
Qed.

Lemma count_below_no_panic b hs :
  Forall td_ok hs -> is_panic (count_below b hs) = false.
Proof.
  induction hs as [|h tl IH]; intros H; [reflexivity|]. inversion H as [|? ? Hh Ht]; subst.
  cbn [count_below]. unfold td_ok in Hh. destruct (td h) as [t| |]; cbn [bind]; try discriminate.
  destruct (t <? b); [|reflexivity]. specialize (IH Ht).
  destruct (count_below b tl); cbn [bind]; [reflexivity | reflexivity | exact IH].
Qed.

Lemma check_samples_no_panic hs : forall ds,
  Forall td_ok hs -> is_panic (check_samples hs ds) = false.
Proof.
  induction hs as [|h tl IH]; intros ds H; [reflexivity|]. inversion H as [|? ? Hh Ht]; subst.
  cbn [check_samples]. unfold td_ok in Hh. destruct (td h) as [t| |]; cbn [bind]; try discriminate.
  destruct (consume (h_ptd h) t ds) as [valid ds']. destruct valid; [apply IH; exact Ht | reflexivity].
Qed.

Lemma in_firstn {A} (x : A) n l : In x (firstn n l) -> In x l.
Proof.
  revert l; induction n as [|n IH]; intros l H; [contradiction|].
  destruct l as [|a l]; [contradiction|]. cbn in H. destruct H as [->|H]; [left; reflexivity | right; apply IH; exact H].
Qed.

Lemma in_skipn {A} (x : A) n l : In x (skipn n l) -> In x l.
Proof.
  revert l; induction n as [|n IH]; intros l H; [exact H|].
  destruct l as [|a l]; [contradiction|]. right. apply IH. exact H.
Qed.

Lemma Forall_slice {A} (P : A -> Prop) l from cnt : Forall P l -> Forall P (slice l from cnt).
Proof.
  intros H. unfold slice. rewrite Forall_forall in *. intros x Hx.
  apply H. apply in_firstn in Hx. eapply in_skipn; eauto.
Qed.

Lemma matched_no_panic last_n start boundary ds hs last_number :
  1 <= last_n -> Forall td_ok hs ->
  is_panic (matched last_n start boundary ds hs last_number) = false.
Proof.
  intros Hn Htd. unfold matched. destruct hs as [|first tl]; [reflexivity|].
  set (hs := first :: tl) in *.
  destruct (unsorted hs); [reflexivity|].
  set (total := lenN hs). set (reorg := count_while (fun h => h_num h <? start) hs).
  pose proof (count_while_le (fun h => h_num h <? start) hs) as Hreorg. fold reorg in Hreorg. fold total in Hreorg.
  assert (Htot : 1 <= total) by (unfold total, lenN, hs; cbn [length]; lia).
  (* reorg gate *)
  match goal with |- is_panic (bind ?g ?k) = false =>
    assert (HG : is_panic g = false);
    [ | assert (HK : is_panic (k tt) = false);
        [ cbn beta | destruct g as [[]| |]; cbn [bind]; [exact HK | reflexivity | discriminate HG] ] ]
  end.
  { destruct (N.eqb_spec reorg 0); [reflexivity|].
    destruct (andb _ _); [reflexivity|].
    destruct (nth_hdr_in_range hs (reorg - 1) ltac:(lia)) as [lr [E _]]. rewrite E. cbn [bind].
    destruct (_ =? _); reflexivity. }
  (* section sizes *)
  destruct (N.ltb_spec last_n (total - reorg)) as [Hbig|Hsmall].
  - pose proof (count_below_no_panic boundary hs Htd) as CB.
    destruct (count_below boundary hs) as [before| |] eqn:CBE; cbn [bind]; try reflexivity; try discriminate.
    pose proof (count_below_le _ _ _ CBE) as Hbefore. fold total in Hbefore.
    destruct (N.ltb_spec last_n (total - before)) as [Hl|Hl].
    + destruct (N.ltb_spec before reorg); cbn [bind]; [reflexivity|].
      destruct (N.eqb_spec (before - reorg) 0) as [S0|S0].
      * destruct (N.ltb_spec 0 (total - before)); [|reflexivity].
        destruct (nth_hdr_in_range hs reorg ltac:(lia)) as [f [E1 _]]. rewrite E1. cbn [bind].
        destruct (nth_hdr_in_range hs (total - 1) ltac:(lia)) as [l [E2 _]]. rewrite E2. cbn [bind].
        destruct (negb (h_num f =? start)); cbn [bind]; [reflexivity|]. destruct ((h_num l + 1 <=? U64MAX) && (h_num l + 1 =? last_number)); cbn [bind]; reflexivity.
      * destruct (nth_hdr_in_range hs (reorg + (before - reorg)) ltac:(lia)) as [fl [E1 I1]]. rewrite E1. cbn [bind].
        assert (Hfl : td_ok fl) by (rewrite Forall_forall in Htd; apply Htd; exact I1).
        unfold td_ok in Hfl. destruct (td fl) as [fl_td| |]; cbn [bind]; try discriminate.
        pose proof (check_samples_no_panic (slice hs reorg (before - reorg)) (take_below fl_td ds) (Forall_slice _ _ _ _ Htd)) as CS.
        destruct (check_samples _ _) as [rest| |]; cbn [bind]; try reflexivity; try discriminate.
        destruct rest as [|next rt]; cbn [bind]; [reflexivity|]. destruct (_ <=? _); cbn [bind]; reflexivity.
    + cbn [bind]. destruct (N.eqb_spec (total - reorg - last_n) 0) as [S0|S0]; [lia|].
      destruct (nth_hdr_in_range hs (reorg + (total - reorg - last_n)) ltac:(lia)) as [fl [E1 I1]]. rewrite E1. cbn [bind].
      assert (Hfl : td_ok fl) by (rewrite Forall_forall in Htd; apply Htd; exact I1).
      unfold td_ok in Hfl. destruct (td fl) as [fl_td| |]; cbn [bind]; try discriminate.
      pose proof (check_samples_no_panic (slice hs reorg (total - reorg - last_n)) (take_below fl_td ds) (Forall_slice _ _ _ _ Htd)) as CS.
      destruct (check_samples _ _) as [rest| |]; cbn [bind]; try reflexivity; try discriminate.
      destruct rest as [|next rt]; cbn [bind]; [reflexivity|]. destruct (_ <=? _); cbn [bind]; reflexivity.
  - cbn [bind N.eqb]. rewrite N.eqb_refl.
    destruct (N.ltb_spec 0 (total - reorg)); [|reflexivity].
    destruct (nth_hdr_in_range hs reorg ltac:(lia)) as [f [E1 _]]. rewrite E1. cbn [bind].
    destruct (nth_hdr_in_range hs (total - 1) ltac:(lia)) as [l [E2 _]]. rewrite E2. cbn [bind].
    destruct (negb (h_num f =? start)); cbn [bind]; [reflexivity|]. destruct ((h_num l + 1 <=? U64MAX) && (h_num l + 1 =? last_number)); cbn [bind]; reflexivity.
Qed.
