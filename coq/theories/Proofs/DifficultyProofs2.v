(* Function-level lemmas about verify_tau / verify_total_difficulty (C14). *)
From Coq Require Import NArith ZArith Lia List Bool Nnat.
From LC Require Import Difficulty LoopProofs DifficultyProofs.
Import ListNotations.
Open Scope N_scope.

Ltac Zify.zify_post_hook ::= Z.div_mod_to_equations.

(* PoW-feasibility bound on block difficulties (see DESIGN, C14): a header whose compact
   target encodes a difficulty above 2^192 cannot pass the PoW check that precedes every
   call of these functions. *)
Definition BD_MAX : N := 2 ^ 192.

Lemma small_mul a b : a <= BD_MAX -> b <= 2 ^ 20 -> a * b <= U256MAX / 4.
Proof.
  intros Ha Hb. apply N.le_trans with (BD_MAX * 2 ^ 20).
  - apply N.mul_le_mono; assumption.
  - apply N.leb_le. reflexivity.
Qed.

Lemma quarter_max x y : x <= U256MAX / 4 -> y <= U256MAX / 4 -> x + y <= U256MAX.
Proof. intros. assert (4 * (U256MAX / 4) <= U256MAX) by (apply N.mul_div_le; lia). lia. Qed.

Lemma mul256_ok site a b : a * b <= U256MAX -> mul256 site a b = Ok (a * b).
Proof. intros H. unfold mul256, mul_chk. rewrite (proj2 (N.leb_le _ _) H). reflexivity. Qed.

Lemma add256_ok site a b : a + b <= U256MAX -> add256 site a b = Ok (a + b).
Proof. intros H. unfold add256, add_chk. rewrite (proj2 (N.leb_le _ _) H). reflexivity. Qed.

Lemma sub_chk_ok site a b : b <= a -> sub_chk site a b = Ok (a - b).
Proof. intros H. unfold sub_chk. rewrite (proj2 (N.leb_le _ _) H). reflexivity. Qed.

Lemma add64_ok site a b : a + b <= U64MAX -> add64 site a b = Ok (a + b).
Proof. intros H. unfold add64, add_chk. rewrite (proj2 (N.leb_le _ _) H). reflexivity. Qed.

Lemma U64MAX_val : U64MAX = 18446744073709551615. Proof. reflexivity. Qed.
Lemma U24MAX_val : U24MAX = 16777215. Proof. reflexivity. Qed.
Lemma U16MAX_val : U16MAX = 65535. Proof. reflexivity. Qed.

Lemma quarter_le_max x : x <= U256MAX / 4 -> x <= U256MAX.
Proof. intros. assert (4 * (U256MAX / 4) <= U256MAX) by (apply N.mul_div_le; lia). lia. Qed.

(* ------------------------------------------------------------------------------------ *)
(* verify_tau *)

Lemma verify_tau_no_panic se sct sbd ee ect ebd tau :
  sbd * e_len se <= U256MAX -> ebd * e_len ee <= U256MAX ->
  is_panic (verify_tau se sct sbd ee ect ebd tau) = false.
Proof.
  intros H1 H2. unfold verify_tau.
  destruct (e_num se =? e_num ee); [destruct (sct =? ect); reflexivity|].
  rewrite (mul256_ok _ _ _ H1), (mul256_ok _ _ _ H2). cbn [bind].
  destruct (e_num ee <? e_num se); reflexivity.
Qed.

Lemma verify_tau_complete tau se sct sbd ee ect ebd ds :
  1 <= tau ->
  e_num ee = e_num se + lenN ds ->
  (ds = [] -> sct = ect) ->
  sbd * e_len se <= U256MAX -> ebd * e_len ee <= U256MAX ->
  legal_seq tau (sbd * e_len se) ds ->
  last ds (sbd * e_len se) = ebd * e_len ee ->
  verify_tau se sct sbd ee ect ebd tau = Ok true.
Proof.
  intros Htau Hnum Hsame H1 H2 Hleg Hlast. unfold verify_tau.
  destruct ds as [|d ds].
  - unfold lenN in Hnum; cbn in Hnum. rewrite N.add_0_r in Hnum. rewrite Hnum, N.eqb_refl.
    rewrite (Hsame eq_refl), N.eqb_refl. reflexivity.
  - assert (Hlen : 0 < lenN (d :: ds)) by (unfold lenN; cbn [length]; lia).
    destruct (N.eqb_spec (e_num se) (e_num ee)) as [E|_]; [lia|].
    rewrite (mul256_ok _ _ _ H1), (mul256_ok _ _ _ H2). cbn [bind].
    destruct (N.ltb_spec (e_num ee) (e_num se)) as [L|_]; [lia|].
    replace (e_num ee - e_num se) with (lenN (d :: ds)) by lia.
    rewrite <- Hlast. rewrite check_tau_complete; try assumption; [reflexivity|].
    rewrite Hlast. exact H2.
Qed.

(* ------------------------------------------------------------------------------------ *)
(* check_total_difficulty_limit: result shape and absence of panics *)

Definition limit_result_ok (r : res unit) : Prop :=
  r = Ok tt \/ r = Err E_BELOW_MIN \/ r = Err E_ABOVE_MAX.

Lemma split_ok t lim n k :
  k < n -> n <= U24MAX ->
  exists d, split_epochs t lim n k = Ok d /\ snd (d_start d) + snd (d_end d) = n.
Proof.
  intros Hk Hn. rewrite U24MAX_val in Hn.
  assert (HA : forall a b, a + b <= U64MAX -> add64 S_SPLIT a b = Ok (a + b)) by (intros; apply add64_ok; assumption).
  assert (HS : forall a b, b <= a -> sub_chk S_SPLIT a b = Ok (a - b)) by (intros; apply sub_chk_ok; assumption).
  destruct lim, t; unfold split_epochs.
  all: repeat (first
    [ rewrite HA by (rewrite U64MAX_val; lia)
    | rewrite HS by lia ]; cbn [bind]).
  all: eexists; split; [reflexivity | cbn [d_start d_end snd]; lia].
Qed.

Lemma remove_last_ok d :
  0 < snd (d_start d) + snd (d_end d) -> exists d', remove_last_epoch d = Ok d'.
Proof.
  intros H. unfold remove_last_epoch, subtract1.
  destruct (N.eqb_spec (snd (d_end d)) 0) as [E|E].
  - rewrite sub_chk_ok by lia. cbn [bind]. eexists; reflexivity.
  - rewrite sub_chk_ok by lia. cbn [bind]. eexists; reflexivity.
Qed.

Lemma run_group_shape g check_max tau actual st :
  match run_group g check_max tau actual st with
  | inl _ => True
  | inr r => limit_result_ok r
  end.
Proof.
  unfold run_group.
  apply (loopN_inv (limit_step (fst g) check_max tau actual) (fun _ => True) limit_result_ok);
    [trivial | | trivial].
  intros [curr total] b _. unfold limit_step.
  destruct (_ <=? U256MAX).
  - destruct (actual <=? _); [|discriminate].
    intros E; inversion E; subst. unfold limit_result_ok. destruct check_max; auto.
  - intros E; inversion E; subst. unfold limit_result_ok. destruct check_max; auto.
Qed.

Lemma limit_shape t lim n k actual start tau unaligned :
  k < n -> n <= U24MAX ->
  limit_result_ok (check_total_difficulty_limit t lim n k actual start tau unaligned).
Proof.
  intros Hk Hn. unfold check_total_difficulty_limit.
  destruct (split_ok t lim n k Hk Hn) as [d0 [E0 Hsum]]. rewrite E0. cbn [bind].
  destruct (remove_last_ok d0 ltac:(lia)) as [d E1]. rewrite E1. cbn [bind].
  pose proof (run_group_shape (d_start d) (match lim with LMax => true | LMin => false end) tau actual (start, 0)) as G1.
  destruct (run_group (d_start d) _ tau actual (start, 0)) as [st1|r]; [|exact G1].
  pose proof (run_group_shape (d_end d) (match lim with LMax => true | LMin => false end) tau actual st1) as G2.
  destruct (run_group (d_end d) _ tau actual st1) as [[c total]|r]; [|exact G2].
  unfold limit_result_ok.
  destruct (total + unaligned <=? U256MAX); destruct lim;
    repeat match goal with |- context [if ?c then _ else _] => destruct c end; auto.
Qed.

(* ------------------------------------------------------------------------------------ *)
(* verify_total_difficulty *)

Record ranges (se ee : epoch) : Prop := {
  r_sn : e_num se <= U24MAX; r_en : e_num ee <= U24MAX;
  r_si : e_idx se <= U16MAX; r_ei : e_idx ee <= U16MAX;
  r_sl : e_len se <= U16MAX; r_el : e_len ee <= U16MAX
}.

Lemma tau_exp_some tau s e n :
  1 <= tau -> 0 < n -> s <= U256MAX -> e <= U256MAX ->
  e <= s * tau ^ n -> s <= e * tau ^ n ->
  exists k, calculate_tau_exponent (trend_new s e) tau n = Some k.
Proof.
  intros Htau Hn Hs He B1 B2. unfold trend_new.
  destruct (s ?= e) eqn:C; cbn [calculate_tau_exponent].
  - eexists; reflexivity.
  - rewrite loopN_nat. pose proof (inc_loop tau e (N.to_nat n) s 0) as L.
    destruct (loop_nat (tau_exp_step_inc tau e) (N.to_nat n) (s, 0)) as [[? ?]|k']; [|eexists; reflexivity].
    exfalso. destruct L as [_ [_ [L|L]]]; [lia|].
    rewrite N2Nat.id, grow_spec in L by assumption.
    assert (e <= N.min (s * tau ^ n) U256MAX) by (apply N.min_glb; assumption). lia.
  - rewrite loopN_nat. pose proof (dec_loop tau e (N.to_nat n) s 0) as L.
    destruct (loop_nat (tau_exp_step_dec tau e) (N.to_nat n) (s, 0)) as [[? ?]|k']; [|eexists; reflexivity].
    exfalso. destruct L as [_ [_ [L|L]]]; [lia|].
    rewrite N2Nat.id, shrink_spec in L by lia.
    assert (s / tau ^ n <= e); [|lia].
    apply N.div_le_upper_bound; [apply N.pow_nonzero; lia | lia].
Qed.

Definition td_result_ok (r : res unit) : Prop :=
  match r with Panic _ => False | _ => True end.

Lemma verify_td_no_panic se sbd std ee ebd etd tau :
  ranges se ee -> sbd <= BD_MAX -> ebd <= BD_MAX -> 0 < tau ->
  is_panic (verify_total_difficulty se sbd std ee ebd etd tau) = false.
Proof.
  intros R Hs He Htau. destruct R. rewrite U24MAX_val, U16MAX_val in *.
  unfold verify_total_difficulty.
  destruct (etd <? std); [reflexivity|].
  destruct (orb _ _) eqn:G; [reflexivity|].
  apply orb_false_iff in G. destruct G as [G G3]. apply orb_false_iff in G. destruct G as [G1 G2].
  apply N.ltb_ge in G1. apply N.leb_gt in G3.
  destruct (N.eqb_spec (e_num se) (e_num ee)) as [E|E].
  - cbn [andb] in G2. apply N.ltb_ge in G2.
    rewrite sub_chk_ok by lia. cbn [bind].
    rewrite mul256_ok by (apply quarter_le_max, small_mul; [assumption | apply N.le_trans with 65535; [lia | apply N.leb_le; reflexivity]]).
    cbn [bind]. destruct (_ =? _); reflexivity.
  - rewrite mul256_ok by (apply quarter_le_max, small_mul; [assumption | apply N.le_trans with 65535; [lia | apply N.leb_le; reflexivity]]).
    cbn [bind].
    rewrite mul256_ok by (apply quarter_le_max, small_mul; [assumption | apply N.le_trans with 65535; [lia | apply N.leb_le; reflexivity]]).
    cbn [bind]. rewrite sub_chk_ok by lia. cbn [bind].
    destruct (calculate_tau_exponent _ tau (e_num ee - e_num se)) as [k|] eqn:K; [|reflexivity].
    apply tau_exp_lt in K; [|lia].
    rewrite sub_chk_ok by lia. cbn [bind]. rewrite sub_chk_ok by lia. cbn [bind].
    assert (M1 : sbd * (e_len se - e_idx se - 1) <= U256MAX / 4)
      by (apply small_mul; [assumption | apply N.le_trans with 65535; [lia | apply N.leb_le; reflexivity]]).
    assert (M2 : ebd * (e_idx ee + 1) <= U256MAX / 4)
      by (apply small_mul; [assumption | apply N.le_trans with 65536; [lia | apply N.leb_le; reflexivity]]).
    rewrite (mul256_ok _ _ _ (quarter_le_max _ M1)). cbn [bind].
    rewrite (mul256_ok _ _ _ (quarter_le_max _ M2)). cbn [bind].
    rewrite add256_ok by (apply quarter_max; assumption). cbn [bind].
    destruct (_ =? 1); [destruct (_ =? _); reflexivity|].
    set (n := e_num ee - e_num se) in *.
    assert (Hn : n <= U24MAX) by (rewrite U24MAX_val; subst n; lia).
    destruct (limit_shape (trend_new (sbd * e_len se) (ebd * e_len ee)) LMin n k (etd - std) (sbd * e_len se) tau
               (sbd * (e_len se - e_idx se - 1) + ebd * (e_idx ee + 1)) K Hn) as [->|[->| ->]]; cbn [bind]; try reflexivity.
    destruct (limit_shape (trend_new (sbd * e_len se) (ebd * e_len ee)) LMax n k (etd - std) (sbd * e_len se) tau
               (sbd * (e_len se - e_idx se - 1) + ebd * (e_idx ee + 1)) K Hn) as [->|[->| ->]]; reflexivity.
Qed.

Lemma verify_td_sound_same_epoch se sbd std ee ebd etd tau :
  e_num se = e_num ee ->
  verify_total_difficulty se sbd std ee ebd etd tau = Ok tt ->
  std <= etd /\ e_idx se <= e_idx ee /\ etd - std = sbd * (e_idx ee - e_idx se).
Proof.
  intros E. unfold verify_total_difficulty.
  destruct (N.ltb_spec etd std) as [|Hle]; [discriminate|].
  destruct (orb _ _) eqn:G; [discriminate|].
  apply orb_false_iff in G. destruct G as [G _]. apply orb_false_iff in G. destruct G as [_ G2].
  rewrite E, N.eqb_refl in *. cbn [andb] in G2. apply N.ltb_ge in G2.
  rewrite sub_chk_ok by lia. cbn [bind].
  unfold mul256, mul_chk. destruct (_ <=? U256MAX); cbn [bind]; [|discriminate].
  destruct (N.eqb_spec (etd - std) (sbd * (e_idx ee - e_idx se))); [|discriminate].
  intros _. repeat split; assumption.
Qed.

Lemma bind_mul256_inv {B} site a b (k : N -> res B) r :
  bind (mul256 site a b) k = Ok r -> a * b <= U256MAX /\ k (a * b) = Ok r.
Proof.
  unfold mul256, mul_chk. destruct (N.leb_spec (a * b) U256MAX); cbn [bind]; [auto | discriminate].
Qed.

Lemma bind_add256_inv {B} site a b (k : N -> res B) r :
  bind (add256 site a b) k = Ok r -> a + b <= U256MAX /\ k (a + b) = Ok r.
Proof.
  unfold add256, add_chk. destruct (N.leb_spec (a + b) U256MAX); cbn [bind]; [auto | discriminate].
Qed.

Lemma bind_sub_inv {B} site a b (k : N -> res B) r :
  bind (sub_chk site a b) k = Ok r -> b <= a /\ k (a - b) = Ok r.
Proof.
  unfold sub_chk. destruct (N.leb_spec b a); cbn [bind]; [auto | discriminate].
Qed.

Lemma verify_td_sound_one_switch se sbd std ee ebd etd tau :
  e_num ee = e_num se + 1 ->
  verify_total_difficulty se sbd std ee ebd etd tau = Ok tt ->
  std <= etd /\ e_idx se < e_len se /\
  etd - std = sbd * (e_len se - e_idx se - 1) + ebd * (e_idx ee + 1).
Proof.
  intros E. unfold verify_total_difficulty.
  destruct (N.ltb_spec etd std) as [|Hle]; [discriminate|].
  destruct (orb _ _) eqn:G; [discriminate|].
  apply orb_false_iff in G. destruct G as [_ G3]. apply N.leb_gt in G3.
  destruct (N.eqb_spec (e_num se) (e_num ee)) as [E'|_]; [lia|].
  intros H.
  apply bind_mul256_inv in H. destruct H as [_ H].
  apply bind_mul256_inv in H. destruct H as [_ H].
  apply bind_sub_inv in H. destruct H as [_ H].
  destruct (calculate_tau_exponent _ _ _); [|discriminate].
  apply bind_sub_inv in H. destruct H as [_ H].
  apply bind_sub_inv in H. destruct H as [_ H].
  apply bind_mul256_inv in H. destruct H as [_ H].
  apply bind_mul256_inv in H. destruct H as [_ H].
  apply bind_add256_inv in H. destruct H as [_ H].
  replace (e_num ee - e_num se) with 1 in H by lia. cbn [N.eqb Pos.eqb] in H.
  destruct (N.eqb_spec (etd - std) (sbd * (e_len se - e_idx se - 1) + ebd * (e_idx ee + 1))); [|discriminate].
  repeat split; assumption.
Qed.

Lemma verify_td_too_fast_inc se sbd std ee ebd etd tau :
  1 <= tau -> e_num se < e_num ee ->
  ebd * e_len ee <= U256MAX ->
  sbd * e_len se * tau ^ (e_num ee - e_num se) < ebd * e_len ee ->
  is_ok (verify_total_difficulty se sbd std ee ebd etd tau) = false.
Proof.
  intros Htau Hn He Hfast. unfold verify_total_difficulty.
  destruct (etd <? std); [reflexivity|].
  destruct (orb _ _); [reflexivity|].
  destruct (N.eqb_spec (e_num se) (e_num ee)) as [E'|_]; [lia|].
  unfold mul256 at 1, mul_chk. destruct (N.leb_spec (sbd * e_len se) U256MAX) as [Hs|]; [|reflexivity]. cbn [bind].
  rewrite (mul256_ok _ _ _ He). cbn [bind]. rewrite sub_chk_ok by lia. cbn [bind].
  rewrite tau_exp_too_fast_inc; try assumption. reflexivity.
Qed.

Lemma verify_td_too_fast_dec se sbd std ee ebd etd tau :
  0 < tau -> e_num se < e_num ee ->
  ebd * e_len ee < sbd * e_len se / tau ^ (e_num ee - e_num se) ->
  is_ok (verify_total_difficulty se sbd std ee ebd etd tau) = false.
Proof.
  intros Htau Hn Hfast. unfold verify_total_difficulty.
  destruct (etd <? std); [reflexivity|].
  destruct (orb _ _); [reflexivity|].
  destruct (N.eqb_spec (e_num se) (e_num ee)) as [E'|_]; [lia|].
  unfold mul256, mul_chk.
  destruct (_ <=? U256MAX); [|reflexivity]. cbn [bind].
  destruct (_ <=? U256MAX); [|reflexivity]. cbn [bind].
  rewrite sub_chk_ok by lia. cbn [bind].
  rewrite tau_exp_too_fast_dec; try assumption. reflexivity.
Qed.
