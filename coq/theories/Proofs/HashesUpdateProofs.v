(* Lemmas about Model/HashesUpdate.v (C06, C10). *)
From Coq Require Import NArith Lia List Bool.
From LC Require Import HashesUpdate.
Import ListNotations.
Open Scope N_scope.
Open Scope bool_scope.

Lemma nthN_some {A} (l : list A) i : i < len l -> exists x, nthN l i = Some x.
Proof.
  unfold nthN, len. intros H. destruct (nth_error l (N.to_nat i)) as [x|] eqn:E; [exists x; reflexivity|].
  apply nth_error_None in E. lia.
Qed.

Lemma len_takeN {A} (l : list A) i : i <= len l -> len (takeN i l) = i.
Proof. unfold len, takeN. intros H. rewrite firstn_length. lia. Qed.

Lemma len_dropN {A} (l : list A) i : len (dropN i l) = len l - i.
Proof. unfold len, dropN. rewrite skipn_length. lia. Qed.

Lemma nth_error_firstn_some {A} : forall n (l : list A) k x, nth_error (firstn n l) k = Some x -> nth_error l k = Some x.
Proof.
  induction n as [|n IH]; intros l k x H; [destruct k; discriminate|].
  destruct l as [|a l]; [destruct k; discriminate|]. destruct k as [|k]; [exact H|]. cbn [firstn nth_error] in *. apply IH. exact H.
Qed.

(* ---- no panic (C10) ---- *)
Theorem update_latest_no_panic last_proved fin_number fcp start parent hs l site :
  update_latest last_proved fin_number fcp start parent hs l <> Panic site.
Proof.
  unfold update_latest. destruct hs as [|h0 hs0]; [discriminate|]. set (hs := h0 :: hs0).
  assert (Hlen : 1 <= len hs) by (unfold len, hs; cbn [length]; lia).
  destruct (last_proved <=? fin_number) eqn:E1; [discriminate|]. apply N.leb_gt in E1.
  destruct (negb (fin_number =? l_cp l)) eqn:E2; [discriminate|]. apply negb_false_iff, N.eqb_eq in E2.
  destruct (U64MAX <? start + (len hs - 1)); [discriminate|].
  destruct (start + (len hs - 1) <=? fin_number) eqn:E3; [discriminate|]. apply N.leb_gt in E3.
  destruct (last_proved <? start) eqn:E4; [discriminate|]. apply N.ltb_ge in E4.
  destruct (l_cp l + len (l_inner l) + 1 <? start) eqn:E5; [discriminate|]. apply N.ltb_ge in E5.
  set (hs1 := if last_proved <? start + (len hs - 1) then takeN (len hs - (start + (len hs - 1) - last_proved)) hs else hs).
  assert (Hhs1 : fin_number - start < len hs1 \/ fin_number < start).
  { destruct (N.lt_ge_cases fin_number start) as [Hlt|Hge]; [right; exact Hlt|]. left.
    unfold hs1. destruct (last_proved <? start + (len hs - 1)) eqn:E6.
    - apply N.ltb_lt in E6. rewrite len_takeN by lia. lia.
    - lia. }
  destruct (start <=? fin_number) eqn:E7.
  - apply N.leb_le in E7. destruct Hhs1 as [Hi|Hi]; [|lia]. destruct (nthN_some hs1 _ Hi) as [x Hx]. rewrite Hx.
    destruct (x =? fcp); cbn [bind]; [|discriminate]. destruct (zip_differs _ _); discriminate.
  - apply N.leb_gt in E7. destruct (start =? fin_number + 1) eqn:E8.
    + destruct (parent =? fcp); cbn [bind]; [|discriminate]. destruct (zip_differs _ _); discriminate.
    + apply N.eqb_neq in E8.
      assert (Hi : start - fin_number - 2 < len (l_inner l)) by lia.
      destruct (nthN_some (l_inner l) _ Hi) as [x Hx]. rewrite Hx.
      destruct (x =? parent); cbn [bind]; [|discriminate]. destruct (zip_differs _ _); discriminate.
Qed.

Theorem update_cached_no_panic cn nn ccp ncp cached start parent hs site :
  cn < start -> start <= nn ->
  update_cached cn nn ccp ncp cached start parent hs <> Panic site.
Proof.
  intros Hs1 Hs2. unfold update_cached.
  destruct (cn + len cached + 1 <? start) eqn:E1; [discriminate|]. apply N.ltb_ge in E1.
  assert (Hp : exists r, (if start =? cn + 1 then Ok (if ccp =? parent then inr tt else inl C_HASHES_UNEXPECTED)
                          else match nthN cached (start - cn - 2) with
                               | None => Panic S_FH_CACHED_PARENT
                               | Some h => Ok (if h =? parent then inr tt else inl 0) end) = Ok r).
  { destruct (start =? cn + 1) eqn:E2; [eexists; reflexivity|]. apply N.eqb_neq in E2.
    assert (Hi : start - cn - 2 < len cached) by lia. destruct (nthN_some cached _ Hi) as [x Hx]. rewrite Hx. eexists; reflexivity. }
  destruct Hp as [r Hr]. rewrite Hr. cbn [bind]. destruct r as [c|[]]; [discriminate|].
  assert (Hc : exists r, (if nn <? start + len hs - 1
                          then match nthN hs (len hs - (start + len hs - 1 - nn) - 1) with
                               | None => Panic S_FH_NEXT_CP
                               | Some h => Ok (if ncp =? h then inr tt else inl C_HASHES_UNEXPECTED) end
                          else Ok (inr tt)) = Ok r).
  { destruct (nn <? start + len hs - 1) eqn:E3; [|eexists; reflexivity]. apply N.ltb_lt in E3.
    assert (Hi : len hs - (start + len hs - 1 - nn) - 1 < len hs) by lia.
    destruct (nthN_some hs _ Hi) as [x Hx]. rewrite Hx. eexists; reflexivity. }
  destruct Hc as [r Hr2]. rewrite Hr2. cbn [bind]. destruct r as [c|[]]; [discriminate|].
  destruct (len cached <? start - (cn + 1)) eqn:E4; [apply N.ltb_lt in E4; lia|].
  destruct (zip_differs _ _); discriminate.
Qed.

Theorem process_no_panic w start parent hs site : process w start parent hs <> Panic site.
Proof.
  unfold process. destruct (w_prove w) as [proved|]; [|discriminate].
  destruct ((start <=? w_fi w * w_interval w) && (w_ci w * w_interval w <? start) && (start <=? (w_ci w + 1) * w_interval w)) eqn:B.
  - apply andb_true_iff in B. destruct B as [B B3]. apply andb_true_iff in B. destruct B as [_ B2].
    apply N.ltb_lt in B2. apply N.leb_le in B3.
    pose proof (update_cached_no_panic (w_ci w * w_interval w) ((w_ci w + 1) * w_interval w) (w_ccp w) (w_ncp w) (w_cached w) start parent hs) as NP.
    destruct (update_cached _ _ _ _ _ _ _ _) as [[c|[cached' next]]|c|s]; cbn [bind]; try discriminate.
    exfalso. exact (NP s B2 B3 eq_refl).
  - destruct (w_fi w * w_interval w <? start); [|discriminate].
    pose proof (update_latest_no_panic proved (w_fi w * w_interval w) (w_fcp w) start parent hs (w_lat w)) as NP.
    destruct (update_latest _ _ _ _ _ _ _) as [[c|[inner' next]]|c|s]; cbn [bind]; try discriminate.
    exfalso. exact (NP s eq_refl).
Qed.

(* ---- what an accepted message can change (C06) ---- *)

(* the per-peer list only grows at its end: nothing accepted earlier is rewritten; a first batch is anchored at the
   finalized check point *)
Theorem update_latest_extends last_proved fin_number fcp start parent hs l inner' next :
  update_latest last_proved fin_number fcp start parent hs l = Ok (inr (inner', next)) ->
  (exists ext, inner' = l_inner l ++ ext) /\
  (l_inner l = [] -> (start <= fin_number /\ nthN hs (fin_number - start) = Some fcp) \/ (start = fin_number + 1 /\ parent = fcp)).
Proof.
  unfold update_latest. destruct hs as [|h0 hs0]; [discriminate|]. set (hs := h0 :: hs0).
  destruct (last_proved <=? fin_number); [discriminate|].
  destruct (negb (fin_number =? l_cp l)) eqn:E2; [discriminate|]. apply negb_false_iff, N.eqb_eq in E2.
  destruct (U64MAX <? start + (len hs - 1)); [discriminate|].
  destruct (start + (len hs - 1) <=? fin_number); [discriminate|].
  destruct (last_proved <? start); [discriminate|].
  destruct (l_cp l + len (l_inner l) + 1 <? start) eqn:E5; [discriminate|]. apply N.ltb_ge in E5.
  set (hs1 := if last_proved <? start + (len hs - 1) then takeN (len hs - (start + (len hs - 1) - last_proved)) hs else hs).
  assert (Hsub : forall i x, nthN hs1 i = Some x -> nthN hs i = Some x).
  { intros i x. unfold hs1. destruct (last_proved <? start + (len hs - 1)); [|auto].
    unfold nthN, takeN. apply nth_error_firstn_some. }
  destruct (start <=? fin_number) eqn:E7.
  - apply N.leb_le in E7. destruct (nthN hs1 (fin_number - start)) as [x|] eqn:Hx; [|discriminate].
    destruct (x =? fcp) eqn:Ex; cbn [bind]; [|discriminate]. apply N.eqb_eq in Ex. subst x.
    destruct (zip_differs _ _); [discriminate|]. intros H. inversion H; subst.
    split; [eexists; reflexivity|]. intros _. left. split; [exact E7 | apply Hsub; exact Hx].
  - destruct (start =? fin_number + 1) eqn:E8.
    + apply N.eqb_eq in E8. destruct (parent =? fcp) eqn:Ep; cbn [bind]; [|discriminate]. apply N.eqb_eq in Ep.
      destruct (zip_differs _ _); [discriminate|]. intros H. inversion H; subst.
      split; [eexists; reflexivity|]. intros _. right. split; reflexivity.
    + destruct (nthN (l_inner l) (start - fin_number - 2)) as [x|] eqn:Hx; [|discriminate].
      destruct (x =? parent); cbn [bind]; [|discriminate].
      destruct (zip_differs _ _); [discriminate|]. intros H. inversion H; subst.
      split; [eexists; reflexivity|]. intros Hnil. rewrite Hnil in Hx. unfold nthN in Hx. destruct (N.to_nat _); discriminate.
Qed.

(* the cached list only grows at its end, never beyond the next check point, and when it reaches it the hash stored
   there is the finalized check point *)
Theorem update_cached_extends cn nn ccp ncp cached start parent hs cached' next :
  cn < start -> start <= nn -> len cached <= nn - cn ->
  update_cached cn nn ccp ncp cached start parent hs = Ok (inr (cached', next)) ->
  (exists ext, cached' = cached ++ ext) /\ len cached' <= nn - cn /\
  (cached = [] -> start = cn + 1 /\ parent = ccp).
Proof.
  intros Hs1 Hs2 Hcl. unfold update_cached.
  destruct (cn + len cached + 1 <? start) eqn:E1; [discriminate|]. apply N.ltb_ge in E1.
  assert (Hanch : cached = [] -> start = cn + 1) by (intros ->; unfold len in E1; cbn in E1; lia).
  destruct (start =? cn + 1) eqn:E2.
  - destruct (ccp =? parent) eqn:Ep; cbn [bind]; [|discriminate]. apply N.eqb_eq in Ep.
    destruct (nn <? start + len hs - 1) eqn:E3.
    + destruct (nthN hs _) as [x|]; [|discriminate]. destruct (ncp =? x); cbn [bind]; [|discriminate].
      destruct (len cached <? start - (cn + 1)); [discriminate|]. destruct (zip_differs _ _); [discriminate|].
      intros H. inversion H; subst. split; [eexists; reflexivity|]. split.
      * apply N.ltb_lt in E3. apply N.eqb_eq in E2. unfold len in *. rewrite app_length. unfold dropN, takeN. rewrite !skipn_length, firstn_length. lia.
      * intros Hc. split; [apply Hanch; exact Hc | first [reflexivity | symmetry; exact Ep]].
    + cbn [bind]. destruct (len cached <? start - (cn + 1)); [discriminate|]. destruct (zip_differs _ _); [discriminate|].
      intros H. inversion H; subst. split; [eexists; reflexivity|]. split.
      * apply N.ltb_ge in E3. apply N.eqb_eq in E2. unfold len in *. rewrite app_length. unfold dropN. rewrite !skipn_length. lia.
      * intros Hc. split; [apply Hanch; exact Hc | first [reflexivity | symmetry; exact Ep]].
  - apply N.eqb_neq in E2. destruct (nthN cached (start - cn - 2)) as [x|] eqn:Hx; [|discriminate].
    destruct (x =? parent); cbn [bind]; [|discriminate].
    destruct (nn <? start + len hs - 1) eqn:E3.
    + destruct (nthN hs _) as [y|]; [|discriminate]. destruct (ncp =? y); cbn [bind]; [|discriminate].
      destruct (len cached <? start - (cn + 1)) eqn:E4; [discriminate|]. apply N.ltb_ge in E4. destruct (zip_differs _ _); [discriminate|].
      intros H. inversion H; subst. split; [eexists; reflexivity|]. split.
      * apply N.ltb_lt in E3. unfold len in *. rewrite app_length. unfold dropN, takeN. rewrite !skipn_length, firstn_length. lia.
      * intros Hc. exfalso. apply E2. apply Hanch. exact Hc.
    + cbn [bind]. destruct (len cached <? start - (cn + 1)) eqn:E4; [discriminate|]. apply N.ltb_ge in E4. destruct (zip_differs _ _); [discriminate|].
      intros H. inversion H; subst. split; [eexists; reflexivity|]. split.
      * apply N.ltb_ge in E3. unfold len in *. rewrite app_length. unfold dropN. rewrite !skipn_length. lia.
      * intros Hc. exfalso. apply E2. apply Hanch. exact Hc.
Qed.
