(* C10 — No message from a peer can terminate the client.
   The arithmetic / indexing skeleton of the modelled handlers is a [res]-valued function in which
   every unchecked Rust operation is a potential [Panic site]; these theorems say which inputs can
   reach [Panic].  Every other handler (blocks / transactions proof, filter, sync, relay) and the
   glue around the models is covered by the fuzzing op of the check (catch_unwind), not by proof.
   Molecule decoding of the outer message is trusted.

   Preconditions that remain, each discharged by the code before the call or by PoW:
   - last_n >= 1 (configuration constant LAST_N_BLOCKS = 100);
   - header total difficulties do not overflow (checked up front since commit a11000d);
   - block difficulties below 2^192 (a header above cannot pass the PoW check). *)
From Coq Require Import NArith List.
From LC Require Import Matching Difficulty LastStateProof MatchingProofs DifficultyProofs2 LastStateProofProofs ExecPanicProofs HashesUpdate HashesUpdateProofs.
From LC Require Filters FiltersChecked FiltersPanicProofs CheckPoints CheckPointsChecked CheckPointsPanicProofs MatchedBlocks MatchedBlocksProofs.
Import ListNotations.
Open Scope N_scope.

Theorem C10_no_panic_matched :
  forall last_n start boundary ds hs last_number,
    1 <= last_n -> Forall td_ok hs ->
    is_panic (matched last_n start boundary ds hs last_number) = false.
Proof. exact matched_no_panic. Qed.
Print Assumptions C10_no_panic_matched.

Theorem C10_no_panic_verify_tau :
  forall se sct sbd ee ect ebd tau,
    sbd * e_len se <= U256MAX -> ebd * e_len ee <= U256MAX ->
    is_panic (verify_tau se sct sbd ee ect ebd tau) = false.
Proof. exact verify_tau_no_panic. Qed.
Print Assumptions C10_no_panic_verify_tau.

Theorem C10_no_panic_verify_total_difficulty :
  forall se sbd std ee ebd etd tau,
    ranges se ee -> sbd <= BD_MAX -> ebd <= BD_MAX -> 0 < tau ->
    is_panic (verify_total_difficulty se sbd std ee ebd etd tau) = false.
Proof. exact verify_td_no_panic. Qed.
Print Assumptions C10_no_panic_verify_total_difficulty.

(* messages for which no request is outstanding, or from unknown peers, return at once *)
Theorem C10_no_panic_unsolicited :
  forall last_n tau st ml pe hs mmr rb rg ps,
    is_panic (execute last_n tau PNone st ml pe hs mmr rb rg) = false /\
    is_panic (execute last_n tau (PNoRequest ps) st ml pe hs mmr rb rg) = false.
Proof. intros. split; reflexivity. Qed.
Print Assumptions C10_no_panic_unsolicited.

(* the documented abort: it needs the long-fork flag, which only the second, from-genesis request carries *)
Theorem C10_long_fork_abort_needs_flag :
  forall last_n tau ps rq st ml pe hs mmr rb rg e,
    execute last_n tau (PRequested ps rq) st ml pe hs mmr rb rg = Ok e ->
    ef_prove e <> ps -> pr_long_fork rq = false.
Proof.
  intros last_n tau ps rq st ml pe hs mmr rb rg e H Hne.
  apply execute_outcome in H. destruct H; try (exfalso; apply Hne; reflexivity). assumption.
Qed.
Print Assumptions C10_long_fork_abort_needs_flag.

(* the whole modelled SendLastStateProof handler: whatever a peer with an outstanding request sends, the only way the
   handler unwinds is the documented stop.  Hypotheses, each guaranteed before or by the decoding:
   - [hdr_ok]: field ranges of decoded headers (u64 number, u24/u16 epoch fields) and block difficulty below 2^192 (PoW);
   - the request's last header and the peer's proven header have total difficulties that do not overflow (both were
     validated when they were accepted: commit a11000d);
   - [mmr <> 3]: the MMR library does not unwind (the guards of commits da00bf8 and b77324c keep oversized end numbers
     and digests away from it; the library itself is not verified). *)
Theorem C10_only_documented_abort :
  forall last_n tau ps rq st ml pe hs mmr rb rg site,
    1 <= last_n -> 0 < tau -> mmr <> 3 ->
    hdr_ok ml -> Forall hdr_ok hs ->
    is_ok (vtd (pr_last rq)) = true ->
    (forall old, ps = Some old -> is_ok (vtd (ps_last old)) = true /\ hdr_ok (ps_last old)) ->
    execute last_n tau (PRequested ps rq) st ml pe hs mmr rb rg = Panic site ->
    site = S_LONG_FORK /\ pr_long_fork rq = true.
Proof. exact execute_panics_only_as_documented. Qed.
Print Assumptions C10_only_documented_abort.

(* the BlockFilterHashes handler (filter protocol), as repaired by 88f14dd: whatever the start number, the parent hash,
   the list and the client's state (finalized / cached check points, cached and per-peer hashes), the handler returns *)
Theorem C10_block_filter_hashes_never_panics :
  forall w start parent hs site, process w start parent hs <> Panic site.
Proof. exact process_no_panic. Qed.
Print Assumptions C10_block_filter_hashes_never_panics.

(* the BlockFilters handler (filter protocol): Model/FiltersChecked.v writes every u64 / u32 / usize operation, cast, expect and
   slice index of BlockFiltersProcess::execute, check_filters_data and the helpers in peers.rs as the checked operation it is.
   For every message (any start number, any filters, any block hashes) and every peer state the handler returns, provided the
   client's OWN state is within range: a positive check point interval, filter progress and message length below 2^32 check point
   intervals, indices fitting their u32, and the stored check point in front of the cached range (written by finalization).
   Outside that range the unwinding is real (Example below: filter progress u64::MAX, reachable only through the user's own
   set_scripts, not through a peer). *)
Theorem C10_block_filters_never_panics :
  forall w m, FiltersPanicProofs.in_range w m -> is_panic (FiltersChecked.execute_chk w m) = false.
Proof. exact FiltersPanicProofs.block_filters_never_panics. Qed.
Print Assumptions C10_block_filters_never_panics.

(* ... and there the checked model computes what the unbounded model of C06 computes, so the C06 theorems speak about it *)
Theorem C10_block_filters_checked_model_is_the_C06_model :
  forall w m, FiltersPanicProofs.in_range w m -> FiltersChecked.execute_chk w m = Filters.execute w m.
Proof. exact FiltersPanicProofs.execute_chk_eq. Qed.
Print Assumptions C10_block_filters_checked_model_is_the_C06_model.

(* non-vacuity: a client 3 blocks into the second check point interval, with cached hashes, is within range *)
Example C10_block_filters_range_example :
  FiltersPanicProofs.in_range (Filters.mkFW [(1, 0)] (Some (Some 7)) 2003 false true 2000 3 33 1 [41; 42; 43; 44] (Some 40) [51] [] [])
           (Filters.mkMsg 2004 [1; 2] [8; 9]).
Proof. constructor; [reflexivity | vm_compute; discriminate | vm_compute; discriminate | vm_compute; discriminate | reflexivity | intros _; discriminate]. Qed.

(* the BlockFilterCheckPoints handler (filter protocol): Model/CheckPointsChecked.v writes the `%`, the u64 products and sums, the
   `count - 1` and the two vector indexings of CheckPoints::add_check_points as the checked operations they are.  For every
   message (any start number, any list of check points) the handler returns, provided the peer's OWN vector is within range:
   positive interval, non-empty (it is created with one entry and never emptied), ending below 2^62 / interval.  There the
   checked model is the model the C07 theorems are about. *)
Theorem C10_check_points_never_panics :
  forall interval c last_proved start new,
    CheckPointsPanicProofs.cp_range interval c new ->
    is_panic (CheckPointsChecked.add_check_points_chk interval c last_proved start new) = false.
Proof. exact CheckPointsPanicProofs.check_points_never_panics. Qed.
Print Assumptions C10_check_points_never_panics.

Theorem C10_check_points_checked_model_is_the_C07_model :
  forall interval c last_proved start new,
    CheckPointsPanicProofs.cp_range interval c new ->
    CheckPointsChecked.add_check_points_chk interval c last_proved start new = CheckPoints.add_check_points interval c last_proved start new.
Proof. exact CheckPointsPanicProofs.add_check_points_chk_eq. Qed.
Print Assumptions C10_check_points_checked_model_is_the_C07_model.

Example C10_check_points_range_example :
  CheckPointsPanicProofs.cp_range 2000 (CheckPoints.mkCps 3 [11; 12]) [12; 13; 14].
Proof. constructor; [reflexivity | discriminate | vm_compute; discriminate]. Qed.

(* the SendBlock handler (sync protocol): its three aborts - expect("get matched blocks from storage"),
   assert_eq!(blocks.len(), db_blocks.len()), assert!(db_blocks.contains(..)) - are unreachable because the in-memory download
   table is always empty or the image of the EARLIEST pending record.  Model/MatchedBlocks.v has every operation that touches the
   records or the table (filter batch, block arrival, filter timer, set_scripts, fork rollback, restart); the invariant is kept
   by each of them, under it no step unwinds, hence no history does.  The one hypothesis on histories: a batch is recorded behind
   the pending records (it starts right after the current filter progress).  The invariant is checked on the implementation
   after every step of ops c06 and c08 (class C10-table-does-not-mirror-earliest-record). *)
Theorem C10_send_block_invariant_kept :
  forall s e s',
    MatchedBlocksProofs.table_inv s -> MatchedBlocksProofs.recs_ok s -> MatchedBlocksProofs.ev_ok s e ->
    MatchedBlocks.mstep s e = Ok s' -> MatchedBlocksProofs.table_inv s' /\ MatchedBlocksProofs.recs_ok s'.
Proof. exact MatchedBlocksProofs.mstep_keeps_inv. Qed.
Print Assumptions C10_send_block_invariant_kept.

Theorem C10_send_block_never_panics :
  forall evs s,
    MatchedBlocksProofs.table_inv s -> MatchedBlocksProofs.recs_ok s -> MatchedBlocksProofs.evs_ok s evs ->
    is_panic (MatchedBlocks.mrun s evs) = false.
Proof. exact MatchedBlocksProofs.mrun_never_panics. Qed.
Print Assumptions C10_send_block_never_panics.

(* non-vacuity: a fresh client satisfies the invariant; two batches, the bodies of the first, a rollback, a restart, the timer *)
Example C10_send_block_example :
  MatchedBlocksProofs.table_inv (MatchedBlocks.mkMB [] []) /\ MatchedBlocksProofs.recs_ok (MatchedBlocks.mkMB [] []) /\
  MatchedBlocks.mrun (MatchedBlocks.mkMB [] [])
    [MatchedBlocks.M_batch 5 [11; 12]; MatchedBlocks.M_batch 9 [21]; MatchedBlocks.M_block 12; MatchedBlocks.M_block 11;
     MatchedBlocks.M_restart; MatchedBlocks.M_timer; MatchedBlocks.M_block 21]
  = Ok (MatchedBlocks.mkMB [] []).
Proof. split; [left; reflexivity|]. split; [constructor|]. vm_compute. reflexivity. Qed.
