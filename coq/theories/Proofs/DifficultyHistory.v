(* Legal difficulty histories (the specification side of C14) and completeness results. *)
From Coq Require Import NArith ZArith Lia List Bool Nnat.
From LC Require Import Difficulty LoopProofs DifficultyProofs DifficultyProofs2.
Import ListNotations.
Open Scope N_scope.

(* one epoch of a history: its length, compact target and per-block difficulty *)
Record espec := mkES { es_len : N; es_ct : N; es_bd : N }.
Definition ed (e : espec) : N := es_bd e * es_len e.   (* epoch difficulty *)

Definition wf_espec (e : espec) : Prop :=
  0 < es_len e /\ es_len e <= U16MAX /\ es_bd e <= BD_MAX.

Definition sumN (l : list N) : N := fold_right N.add 0 l.

(* A history runs from block [sidx] of epoch [first] to block [eidx] of the last epoch of
   [rest] (of [first] itself if [rest] is empty).  Its accumulated difficulty counts every
   block after the start block up to and including the end block. *)
Definition hist_total (first : espec) (sidx : N) (rest : list espec) (eidx : N) : N :=
  match rest with
  | [] => es_bd first * (eidx - sidx)
  | _ => es_bd first * (es_len first - sidx - 1)
         + sumN (map ed (removelast rest))
         + es_bd (last rest first) * (eidx + 1)
  end.

Definition legal_history (tau : N) (first : espec) (sidx : N) (rest : list espec) (eidx : N) : Prop :=
  wf_espec first /\ Forall wf_espec rest /\
  legal_seq tau (ed first) (map ed rest) /\
  sidx < es_len first /\ eidx < es_len (last rest first) /\
  (rest = [] -> sidx <= eidx).

Definition verify_history (tau snum : N) (first : espec) (sidx : N) (rest : list espec) (eidx std : N) : res unit :=
  verify_total_difficulty
    (mkEpoch snum sidx (es_len first)) (es_bd first) std
    (mkEpoch (snum + lenN rest) eidx (es_len (last rest first))) (es_bd (last rest first))
    (std + hist_total first sidx rest eidx) tau.

Lemma last_map {A B} (f : A -> B) l d : last (map f l) (f d) = f (last l d).
Proof.
  induction l as [|a l IH]; [reflexivity|].
  cbn [map]. destruct l as [|b l]; [reflexivity|]. exact IH.
Qed.

Lemma wf_last first rest : wf_espec first -> Forall wf_espec rest -> wf_espec (last rest first).
Proof.
  intros Hf Hr. induction rest as [|a l IH]; [exact Hf|].
  inversion Hr; subst. destruct l as [|b l]; [assumption|]. apply IH. assumption.
Qed.

Lemma ed_small e : wf_espec e -> ed e <= U256MAX / 4.
Proof.
  intros [_ [H2 H3]]. unfold ed. apply small_mul; [assumption|].
  apply N.le_trans with U16MAX; [assumption | apply N.leb_le; reflexivity].
Qed.

Lemma ed_le_max e : wf_espec e -> ed e <= U256MAX.
Proof. intros. apply quarter_le_max, ed_small. assumption. Qed.

(* Legal histories are never rejected for the trend (step 1), ordering, or exact-match
   reasons; with at most one epoch switch they are accepted.  The only rejection left is the
   range estimate of step 2, which is the known finding. *)
Lemma verify_history_complete_partial tau snum first sidx rest eidx std :
  1 <= tau ->
  legal_history tau first sidx rest eidx ->
  snum + lenN rest <= U24MAX ->
  std + hist_total first sidx rest eidx <= U256MAX ->
  let r := verify_history tau snum first sidx rest eidx std in
  (lenN rest <= 1 -> r = Ok tt) /\
  (r = Ok tt \/ r = Err E_BELOW_MIN \/ r = Err E_ABOVE_MAX).
Proof.
  intros Htau [Wf [Wr [Leg [Hs [He Hse]]]]] Hnum Hmax.
  pose proof (wf_last first rest Wf Wr) as Wl.
  destruct Wf as [F1 [F2 F3]]. pose proof Wl as [L1 [L2 L3]].
  rewrite U16MAX_val in *.
  cbv zeta. unfold verify_history, verify_total_difficulty.
  cbn [e_num e_idx e_len].
  destruct (N.ltb_spec (std + hist_total first sidx rest eidx) std) as [C|_]; [lia|].
  replace (std + hist_total first sidx rest eidx - std) with (hist_total first sidx rest eidx) by lia.
  assert (G : orb (orb (snum + lenN rest <? snum)
                       (andb (snum =? snum + lenN rest) (eidx <? sidx)))
                  (es_len first <=? sidx) = false).
  { apply orb_false_iff; split; [apply orb_false_iff; split|].
    - apply N.ltb_ge. lia.
    - destruct (N.eqb_spec snum (snum + lenN rest)) as [E|_]; [|reflexivity].
      cbn [andb]. apply N.ltb_ge. apply Hse.
      destruct rest; [reflexivity | unfold lenN in E; cbn [length] in E; lia].
    - apply N.leb_gt. exact Hs. }
  rewrite G. clear G.
  destruct rest as [|r1 rest'].
  - (* same epoch *)
    unfold lenN; cbn [length N.of_nat last hist_total]. rewrite N.add_0_r, N.eqb_refl.
    specialize (Hse eq_refl). cbn [last] in He.
    rewrite sub_chk_ok by lia. cbn [bind].
    rewrite mul256_ok by (apply quarter_le_max, small_mul; [assumption | apply N.le_trans with 65535; [lia | apply N.leb_le; reflexivity]]).
    cbn [bind]. rewrite N.eqb_refl. split; auto.
  - set (rest := r1 :: rest') in *.
    assert (Hlen : 1 <= lenN rest) by (unfold lenN, rest; cbn [length]; lia).
    destruct (N.eqb_spec snum (snum + lenN rest)) as [E|_]; [lia|].
    rewrite mul256_ok by (apply (ed_le_max first); split; [|split]; assumption). cbn [bind].
    rewrite mul256_ok by (apply (ed_le_max (last rest first)); assumption). cbn [bind].
    fold (ed first). fold (ed (last rest first)).
    rewrite sub_chk_ok by lia. cbn [bind].
    replace (snum + lenN rest - snum) with (lenN rest) by lia.
    (* step 1 *)
    pose proof (legal_bounds tau (map ed rest) (ed first) Leg) as [B1 B2].
    rewrite last_map in B1, B2.
    assert (Hl : lenN (map ed rest) = lenN rest) by (unfold lenN; rewrite map_length; reflexivity).
    rewrite Hl in B1, B2.
    destruct (tau_exp_some tau (ed first) (ed (last rest first)) (lenN rest)) as [k K]; try assumption; try lia.
    { apply ed_le_max; split; [|split]; assumption. }
    { apply ed_le_max; assumption. }
    rewrite K.
    rewrite sub_chk_ok by lia. cbn [bind]. rewrite sub_chk_ok by lia. cbn [bind].
    assert (M1 : es_bd first * (es_len first - sidx - 1) <= U256MAX / 4)
      by (apply small_mul; [assumption | apply N.le_trans with 65535; [lia | apply N.leb_le; reflexivity]]).
    assert (M2 : es_bd (last rest first) * (eidx + 1) <= U256MAX / 4)
      by (apply small_mul; [assumption | apply N.le_trans with 65536; [lia | apply N.leb_le; reflexivity]]).
    rewrite (mul256_ok _ _ _ (quarter_le_max _ M1)). cbn [bind].
    rewrite (mul256_ok _ _ _ (quarter_le_max _ M2)). cbn [bind].
    rewrite add256_ok by (apply quarter_max; assumption). cbn [bind].
    destruct (N.eqb_spec (lenN rest) 1) as [E1|E1].
    + (* exactly one switch: rest = [r1] *)
      assert (rest' = []) by (destruct rest'; [reflexivity | unfold lenN, rest in E1; cbn [length] in E1; lia]).
      subst rest'. unfold rest. cbn [hist_total removelast map sumN fold_right last].
      rewrite N.add_0_r, N.eqb_refl. split; auto.
    + apply tau_exp_lt in K; [|lia].
      assert (Hn : lenN rest <= U24MAX) by lia.
      split; [lia|].
      destruct (limit_shape (trend_new (ed first) (ed (last rest first))) LMin (lenN rest) k
                 (hist_total first sidx rest eidx) (ed first) tau
                 (es_bd first * (es_len first - sidx - 1) + es_bd (last rest first) * (eidx + 1)) K Hn)
        as [->|[->| ->]]; cbn [bind]; auto.
      destruct (limit_shape (trend_new (ed first) (ed (last rest first))) LMax (lenN rest) k
                 (hist_total first sidx rest eidx) (ed first) tau
                 (es_bd first * (es_len first - sidx - 1) + es_bd (last rest first) * (eidx + 1)) K Hn)
        as [->|[->| ->]]; auto.
Qed.

(* The full completeness statement is false of the code: a legal history that is rejected.
   Epoch difficulties 40, 80, 160, 160, 80 (ten blocks per epoch). *)
Definition wit_first : espec := mkES 10 0 4.
Definition wit_rest : list espec := [mkES 10 0 8; mkES 10 0 16; mkES 10 0 16; mkES 10 0 8].

Lemma wit_legal : legal_history 2 wit_first 0 wit_rest 0.
Proof.
  unfold legal_history, wit_first, wit_rest, wf_espec, legal_step, ed; cbn.
  repeat split; try lia; try discriminate;
    try (apply N.leb_le; reflexivity).
  repeat constructor; cbn; try lia; try (apply N.leb_le; reflexivity).
Qed.

Lemma wit_total : hist_total wit_first 0 wit_rest 0 = 444.
Proof. reflexivity. Qed.

Lemma wit_rejected : verify_history 2 11 wit_first 0 wit_rest 0 256 = Err E_ABOVE_MAX.
Proof. vm_compute. reflexivity. Qed.

(* non-vacuity of the partial completeness theorem: an accepted multi-epoch legal history *)
Definition ok_rest : list espec := [mkES 10 0 8; mkES 10 0 16; mkES 10 0 8].
Lemma ok_legal : legal_history 2 wit_first 3 ok_rest 4.
Proof.
  unfold legal_history, wit_first, ok_rest, wf_espec, legal_step, ed; cbn.
  repeat split; try lia; try discriminate;
    try (apply N.leb_le; reflexivity).
  repeat constructor; cbn; try lia; try (apply N.leb_le; reflexivity).
Qed.
Lemma ok_accepted : verify_history 2 11 wit_first 3 ok_rest 4 256 = Ok tt.
Proof. vm_compute. reflexivity. Qed.
