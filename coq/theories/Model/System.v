(* The light-client protocol as an event-driven system of peers (C11, C12, C05, and routes
   2 and 3 of C01): PeerState with its seven variants and four transition functions
   (peers.rs 905-1069), Peers::{add_peer, remove_peer, get_peers_which_*}, SendLastStateProcess
   (send_last_state.rs), get_last_state / get_last_state_proof / refresh_all_peers /
   update_prove_state_to_child (light_client/mod.rs), and the SendLastStateProof handler of
   Model/LastStateProof.v embedded as one event.

   The contents of the proof requests the implementation draws (random samples) are event
   inputs: whenever the model decides that a request is built, it takes the content the
   implementation sent in that event. *)
From LC Require Export LastStateProof.
Open Scope N_scope.
Open Scope bool_scope.

Definition MESSAGE_TIMEOUT : N := 60000.
Definition REFRESH_MS : N := 8000.
Definition E_INCORRECT_LAST_STATE : N := 413.
Definition E_PEER_IN_IBD : N := 414.

Record last_state := mkLS { ls_h : vhdr; ls_ts : N }.

Inductive pst :=
| Initialized
| ReqFirstLS (when : N)
| OnlyLS (ls : last_state)
| ReqFirstProof (ls : last_state) (rq : prove_request) (when : N)
| Ready (ls : last_state) (ps : prove_state)
| ReqNewLS (ls : last_state) (ps : prove_state) (when : N)
| ReqNewProof (ls : last_state) (ps : prove_state) (rq : prove_request) (when : N).

Definition get_ls (s : pst) : option last_state :=
  match s with
  | Initialized | ReqFirstLS _ => None
  | OnlyLS ls | ReqFirstProof ls _ _ | Ready ls _ | ReqNewLS ls _ _ | ReqNewProof ls _ _ _ => Some ls
  end.
Definition get_rq (s : pst) : option prove_request :=
  match s with
  | ReqFirstProof _ rq _ | ReqNewProof _ _ rq _ => Some rq
  | _ => None
  end.
Definition get_ps (s : pst) : option prove_state :=
  match s with
  | Ready _ ps | ReqNewLS _ ps _ | ReqNewProof _ ps _ _ => Some ps
  | _ => None
  end.
Definition when_sent (s : pst) : option N :=
  match s with
  | ReqFirstLS w | ReqFirstProof _ _ w | ReqNewLS _ _ w | ReqNewProof _ _ _ w => Some w
  | _ => None
  end.

(* the four transition functions; None = Err(IncorrectLastState) *)
Definition t_request_last_state (s : pst) (now : N) : option pst :=
  match s with
  | Initialized => Some (ReqFirstLS now)
  | OnlyLS _ => Some s
  | Ready ls ps => Some (ReqNewLS ls ps now)
  | _ => None
  end.
Definition t_receive_last_state (s : pst) (nls : last_state) : option pst :=
  match s with
  | ReqFirstLS _ => Some (OnlyLS nls)
  | ReqNewLS _ ps _ => Some (Ready nls ps)
  | OnlyLS _ => Some (OnlyLS nls)
  | ReqFirstProof _ rq w => Some (ReqFirstProof nls rq w)
  | Ready _ ps => Some (Ready nls ps)
  | ReqNewProof _ ps rq w => Some (ReqNewProof nls ps rq w)
  | Initialized => None
  end.
Definition t_request_proof (s : pst) (rq : prove_request) (now : N) : option pst :=
  match s with
  | OnlyLS ls => Some (ReqFirstProof ls rq now)
  | Ready ls ps => Some (ReqNewProof ls ps rq now)
  | ReqFirstProof ls _ _ => Some (ReqFirstProof ls rq now)
  | ReqNewProof ls ps _ _ => Some (ReqNewProof ls ps rq now)
  | _ => None
  end.
Definition t_receive_proof (s : pst) (nps : prove_state) : option pst :=
  match s with
  | OnlyLS ls | ReqFirstProof ls _ _ | Ready ls _ | ReqNewProof ls _ _ _ => Some (Ready ls nps)
  | _ => None
  end.

Definition require_new_last_state (s : pst) (before : N) : bool :=
  match s with
  | Initialized => true
  | OnlyLS ls | Ready ls _ => ls_ts ls <? before
  | _ => false
  end.

(* ProveState::is_same_as / ProveRequest::is_same_as; total difficulties of stored headers do not overflow *)
Definition same_h (a b : vhdr) : bool :=
  match same_vheader a b with Ok r => r | _ => false end.

Definition require_new_proof (s : pst) : bool :=
  match s with
  | Ready ls ps => negb (same_h (ps_last ps) (ls_h ls))
  | OnlyLS _ => true
  | _ => false
  end.

(* get_peers_which_have_timeout, light-client part (fetch requests: C16) *)
Definition timed_out (s : pst) (now : N) : bool :=
  match when_sent s with
  | Some w => if w + MESSAGE_TIMEOUT <? now then true
              else match get_ls s with Some ls => ls_ts ls + MESSAGE_TIMEOUT <? now | None => false end
  | None => match get_ls s with Some ls => ls_ts ls + MESSAGE_TIMEOUT <? now | None => false end
  end.

Definition pid := N.
Record sys := mkSys { peers : list (pid * pst); sstore : store; last_n_cfg : N }.

Fixpoint find_peer (p : pid) (l : list (pid * pst)) : option pst :=
  match l with [] => None | (q, s) :: tl => if q =? p then Some s else find_peer p tl end.
Fixpoint set_peer (p : pid) (s : pst) (l : list (pid * pst)) : list (pid * pst) :=
  match l with
  | [] => [(p, s)]
  | (q, s0) :: tl => if q =? p then (q, s) :: tl else (q, s0) :: set_peer p s tl
  end.
Fixpoint del_peer (p : pid) (l : list (pid * pst)) : list (pid * pst) :=
  match l with [] => [] | (q, s) :: tl => if q =? p then tl else (q, s) :: del_peer p tl end.

(* find_if_a_header_is_proved: DashMap iteration order is arbitrary; all candidates carry a prove
   state for the identical verifiable header, the model returns the first in its own order *)
Fixpoint find_proved (h : vhdr) (l : list (pid * pst)) : option prove_state :=
  match l with
  | [] => None
  | (_, s) :: tl =>
      match get_ps s with
      | Some ps => if same_h (ps_last ps) h then Some ps else find_proved h tl
      | None => find_proved h tl
      end
  end.

(* request content as sent by the implementation in this event *)
Record content := mkCt { ct_start : N; ct_boundary : N; ct_diffs : list N }.

Fixpoint find_content (p : pid) (l : list (pid * content)) : option content :=
  match l with [] => None | (q, c) :: tl => if q =? p then Some c else find_content p tl end.

(* build_prove_request_content returns Some? *)
Definition can_build (s : pst) (st : store) (lh : vhdr) : bool :=
  let '(start_td, start_num) :=
    match get_ps s with
    | Some ps => (match vtd (ps_last ps) with Ok t => t | _ => 0 end, v_num (ps_last ps))
    | None => (st_td st, fst (st_tip st))
    end in
  match vtd lh with
  | Ok ltd => negb ((ltd <? start_td) || (v_num lh <=? start_num))
  | _ => false
  end.

Inductive action :=
| A_send_get_last_state (p : pid)
| A_send_get_proof (p : pid)
| A_ban (p : pid) (code : N)
| A_disconnect (p : pid)
| A_missing_content (p : pid).   (* model wanted a request content the implementation did not send *)

(* get_last_state_proof; Err = status to report *)
Definition get_last_state_proof (sy : sys) (p : pid) (now : N) (cts : list (pid * content))
  : (sys * list action) + N :=
  match find_peer p (peers sy) with
  | None => inl (sy, [])   (* expect("checked: should have state") cannot fail where it is called *)
  | Some s =>
    match get_ls s with
    | None => inl (sy, [])
    | Some ls =>
      let lh := ls_h ls in
      let is_proved := match get_ps s with Some ps => same_h (ps_last ps) lh | None => false end in
      if is_proved then inl (sy, []) else
      let is_requested := match get_rq s with Some rq => same_h (pr_last rq) lh | None => false end in
      if is_requested then inl (sy, []) else
      match find_proved lh (peers sy) with
      | Some ps =>
          match t_receive_proof s ps with
          | Some s' => inl (mkSys (set_peer p s' (peers sy)) (sstore sy) (last_n_cfg sy), [])
          | None => inr E_INCORRECT_LAST_STATE
          end
      | None =>
          if can_build s (sstore sy) lh then
            match find_content p cts with
            | Some c =>
                let rq := mkPR lh (ct_start c) (ct_boundary c) (ct_diffs c) false false in
                match t_request_proof s rq now with
                | Some s' => inl (mkSys (set_peer p s' (peers sy)) (sstore sy) (last_n_cfg sy), [A_send_get_proof p])
                | None => inr E_INCORRECT_LAST_STATE
                end
            | None => inl (sy, [A_missing_content p])
            end
          else inl (sy, [])
      end
    end
  end.

Definition get_last_state (sy : sys) (p : pid) (now : N) : (sys * list action) + N :=
  match find_peer p (peers sy) with
  | None => inl (sy, [A_send_get_last_state p])
  | Some s =>
      match t_request_last_state s now with
      | Some s' => inl (mkSys (set_peer p s' (peers sy)) (sstore sy) (last_n_cfg sy), [A_send_get_last_state p])
      | None => inr E_INCORRECT_LAST_STATE
      end
  end.

(* ProveState::new_child *)
Definition new_child (ps : prove_state) (child : vhdr) (last_n : N) : prove_state :=
  let lasts := if last_n <=? lenN (ps_lasts ps) then tl (ps_lasts ps) else ps_lasts ps in
  mkPS child (ps_reorg ps) (lasts ++ [key_of (ps_last ps)]).

Inductive event :=
| EvConnect (p : pid)
| EvDisconnect (p : pid)
| EvLastState (p : pid) (h : vhdr) (fresh : bool) (cts : list (pid * content))
| EvProof (p : pid) (msg_last : vhdr) (proof_empty : bool) (hs : list vhdr) (mmr : N) (cts : list (pid * content))
| EvTick (cts : list (pid * content))
| EvRestart.   (* process restart: every in-memory peer state is gone, the store stays *)

Definition ban (sy : sys) (p : pid) (code : N) : res (sys * list action) := Ok (sy, [A_ban p code]).

Definition lift (p : pid) (sy : sys) (r : (sys * list action) + N) (pre : list action) : res (sys * list action) :=
  match r with
  | inl (sy', acts) => Ok (sy', pre ++ acts)
  | inr code => Ok (sy, pre ++ [A_ban p code])
  end.

(* SendLastStateProcess::execute *)
Definition on_last_state (sy : sys) (now : N) (p : pid) (h : vhdr) (fresh : bool) (cts : list (pid * content))
  : res (sys * list action) :=
  match find_peer p (peers sy) with
  | None => ban sy p E_PEER_NOT_FOUND
  | Some s =>
    if negb (is_ok (vtd h)) then ban sy p E_INVALID_CHAIN_ROOT else
    if negb (v_pow_ok h) then ban sy p E_INVALID_NONCE else
    if negb (v_root_ok h) then ban sy p E_INVALID_CHAIN_ROOT else
    if negb fresh then ban sy p E_PEER_IN_IBD else
    let nls := mkLS h now in
    match get_ls s with
    | Some prev =>
        let* same := same_vheader h (ls_h prev) in
        if same then Ok (sy, []) else
        match t_receive_last_state s nls with
        | None => ban sy p E_INCORRECT_LAST_STATE
        | Some s1 =>
            let sy1 := mkSys (set_peer p s1 (peers sy)) (sstore sy) (last_n_cfg sy) in
            let* ptd := vtd (ls_h prev) in
            let* ntd := vtd h in
            if ptd <? ntd then
              match get_ps s with
              | Some ps =>
                  let* par0 := is_parent_of (ps_last ps) h in
                  (* fix commit: the child's chain root must end at the proved parent with its total difficulty *)
                  let* partd := vtd (ps_last ps) in
                  let par := par0 && (v_rend h =? v_num (ps_last ps)) && (v_ptd h =? partd) in
                  if par then
                    let child := new_child ps h (last_n_cfg sy) in
                    let st := sstore sy in
                    let st' := if st_td st <? ntd
                               then mkStore ntd (key_of h) (ps_lasts child) (st_matched st) else st in
                    match t_receive_proof s1 child with
                    | Some s2 => Ok (mkSys (set_peer p s2 (peers sy)) st' (last_n_cfg sy), [])
                    | None => Ok (mkSys (peers sy1) st' (last_n_cfg sy), [A_ban p E_INCORRECT_LAST_STATE])
                    end
                  else Ok (sy1, [])
              | None => Ok (sy1, [])
              end
            else Ok (sy1, [])
        end
    | None =>
        match t_receive_last_state s nls with
        | None => ban sy p E_INCORRECT_LAST_STATE
        | Some s1 =>
            let sy1 := mkSys (set_peer p s1 (peers sy)) (sstore sy) (last_n_cfg sy) in
            lift p sy1 (get_last_state_proof sy1 p now cts) []
        end
    end
  end.

Definition to_pstate (s : pst) : pstate :=
  match get_rq s with
  | Some rq => PRequested (get_ps s) rq
  | None => PNoRequest (get_ps s)
  end.

(* SendLastStateProofProcess::execute on the system *)
Definition on_proof (sy : sys) (now tau : N) (p : pid) (msg_last : vhdr) (proof_empty : bool)
                    (hs : list vhdr) (mmr : N) (cts : list (pid * content)) : res (sys * list action) :=
  match find_peer p (peers sy) with
  | None => ban sy p E_PEER_NOT_FOUND
  | Some s =>
    let rebuild := can_build s (sstore sy) msg_last in
    let rebuild_genesis := 0 <? v_num msg_last in
    let* e := execute (last_n_cfg sy) tau (to_pstate s) (sstore sy) msg_last proof_empty hs mmr rebuild rebuild_genesis in
    let sy_store := mkSys (peers sy) (ef_store e) (last_n_cfg sy) in
    let code_acts := if (ef_code e =? C_OK) || (ef_code e =? C_RECHECK) then [] else [A_ban p (ef_code e)] in
    if ef_last_state_updated e then
      (* process_last_state + get_last_state_proof *)
      match t_receive_last_state s (mkLS msg_last now) with
      | None => ban sy p E_INCORRECT_LAST_STATE
      | Some s1 =>
          let sy1 := mkSys (set_peer p s1 (peers sy)) (sstore sy) (last_n_cfg sy) in
          lift p sy1 (get_last_state_proof sy1 p now cts) []
      end
    else
    match get_rq s, ef_request e with
    | Some rq, Some (skip, lf) =>
        if ef_new_request e then
          (* re-check: a fresh request for the same last state with a flag set *)
          match find_content p cts with
          | Some c =>
              let rq' := mkPR (pr_last rq) (ct_start c) (ct_boundary c) (ct_diffs c) skip lf in
              match t_request_proof s rq' now with
              | Some s' => Ok (mkSys (set_peer p s' (peers sy)) (ef_store e) (last_n_cfg sy), [A_send_get_proof p])
              | None => Ok (sy_store, [A_ban p E_INCORRECT_LAST_STATE])
              end
          | None => Ok (sy_store, [A_missing_content p])
          end
        else Ok (sy_store, code_acts)
    | _, _ =>
        match ef_prove e, get_rq s with
        | Some nps, Some _ =>
            (* committed: receive_last_state_proof *)
            match t_receive_proof s nps with
            | Some s' => Ok (mkSys (set_peer p s' (peers sy)) (ef_store e) (last_n_cfg sy), code_acts)
            | None => Ok (sy_store, [A_ban p E_INCORRECT_LAST_STATE])
            end
        | _, _ => Ok (sy_store, code_acts)
        end
    end
  end.

(* refresh_all_peers (light-client part) *)
Fixpoint fold_peers (f : sys -> pid -> (sys * list action)) (ps : list pid) (sy : sys) (acc : list action)
  : sys * list action :=
  match ps with
  | [] => (sy, acc)
  | p :: tl => let '(sy', a) := f sy p in fold_peers f tl sy' (acc ++ a)
  end.

Definition ids_where (f : pst -> bool) (sy : sys) : list pid :=
  map fst (filter (fun x => f (snd x)) (peers sy)).

Definition on_tick (sy : sys) (now : N) (cts : list (pid * content)) : sys * list action :=
  let timeouts := ids_where (fun s => timed_out s now) sy in
  let acts0 := map A_disconnect timeouts in
  let before := now - REFRESH_MS in
  let '(sy1, acts1) :=
    fold_peers (fun sy p => match get_last_state sy p now with inl r => r | inr _ => (sy, []) end)
               (ids_where (fun s => require_new_last_state s before) sy) sy acts0 in
  fold_peers (fun sy p => match get_last_state_proof sy p now cts with inl r => r | inr _ => (sy, []) end)
             (ids_where require_new_proof sy1) sy1 acts1.

Definition step (sy : sys) (now tau : N) (ev : event) : res (sys * list action) :=
  match ev with
  | EvConnect p =>
      let sy0 := mkSys (set_peer p Initialized (peers sy)) (sstore sy) (last_n_cfg sy) in
      lift p sy0 (get_last_state sy0 p now) []
  | EvDisconnect p => Ok (mkSys (del_peer p (peers sy)) (sstore sy) (last_n_cfg sy), [])
  | EvLastState p h fresh cts => on_last_state sy now p h fresh cts
  | EvProof p ml pe hs mmr cts => on_proof sy now tau p ml pe hs mmr cts
  | EvTick cts => Ok (on_tick sy now cts)
  | EvRestart => Ok (mkSys [] (sstore sy) (last_n_cfg sy), [])
  end.

(* run a timed history; the clock of each event is part of the input *)
Fixpoint run (sy : sys) (tau : N) (evs : list (N * event)) : list (res (sys * list action)) :=
  match evs with
  | [] => []
  | (now, ev) :: tl =>
      match step sy now tau ev with
      | Ok (sy', acts) => Ok (sy', acts) :: run sy' tau tl
      | Err c => [Err c]
      | Panic s => [Panic s]
      end
  end.
