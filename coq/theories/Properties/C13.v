From LC Require Import Query.
Open Scope N_scope.
Theorem C13_placeholder : forall k, starts_with k [] = true.
Proof. intros k. destruct k; reflexivity. Qed.
Print Assumptions C13_placeholder.
