(* C16: the block reported for a transaction contains it - as long as no block NUMBER is written twice. *)
From Coq Require Import NArith List Bool Lia.
From LC Require Import Store StoreProofs IndexRefinement TxPairing.
Import ListNotations.
Open Scope N_scope.

Lemma fold_put_get (ts : list txid) (bn : N) : forall (m : list (txid * N)) (t : txid),
  a_get N.eqb t (fold_left (fun m0 t0 => a_put N.eqb t0 bn m0) ts m) = if existsb (N.eqb t) ts then Some bn else a_get N.eqb t m.
Proof.
  induction ts as [|x ts IH]; intros m t; [reflexivity|]. cbn [fold_left existsb]. rewrite IH.
  destruct (existsb (N.eqb t) ts); [rewrite orb_true_r; reflexivity|]. rewrite orb_false_r.
  rewrite (a_get_put N.eqb Neqb_spec). reflexivity.
Qed.

Definition numbers (hist : list (N * N * list txid)) : list N := map (fun b => snd (fst b)) hist.

(* what the two maps hold after a history *)
Lemma run_index_num hist : forall st bn bh,
  a_get N.eqb bn (p_num (fold_left index_block hist st)) = Some bh ->
  (exists ts, In (bh, bn, ts) hist) \/ (a_get N.eqb bn (p_num st) = Some bh /\ ~ In bn (numbers hist)).
Proof.
  induction hist as [|[[h n] ts] hist IH]; intros st bn bh H; [right; split; [exact H | intros []]|].
  cbn [fold_left] in H. destruct (IH _ _ _ H) as [[ts' Hin]|[Hg Hn]]; [left; exists ts'; right; exact Hin|].
  cbn [index_block p_num] in Hg. rewrite (a_get_put N.eqb Neqb_spec) in Hg. destruct (N.eqb_spec bn n) as [->|Hne].
  - inversion Hg; subst. left. exists ts. left. reflexivity.
  - right. split; [exact Hg|]. cbn [numbers map fst snd]. intros [E|Hin]; [congruence | exact (Hn Hin)].
Qed.

Lemma run_index_txs hist : forall st t bn,
  a_get N.eqb t (p_txs (fold_left index_block hist st)) = Some bn ->
  (exists bh ts, In (bh, bn, ts) hist /\ In t ts) \/ a_get N.eqb t (p_txs st) = Some bn.
Proof.
  induction hist as [|[[h n] ts] hist IH]; intros st t bn H; [right; exact H|].
  cbn [fold_left] in H. destruct (IH _ _ _ H) as [(bh & ts' & Hin & Ht)|Hg]; [left; exists bh, ts'; split; [right; exact Hin | exact Ht]|].
  cbn [index_block p_txs] in Hg. rewrite fold_put_get in Hg. destruct (existsb (N.eqb t) ts) eqn:E.
  - inversion Hg; subst. left. exists h, ts. split; [left; reflexivity|]. apply existsb_exists in E. destruct E as [x [Hx Ex]].
    apply N.eqb_eq in Ex. subst. exact Hx.
  - right. exact Hg.
Qed.

(* truthful pairing when every block number is written at most once *)
Theorem pairing_truthful hist t bh :
  NoDup (numbers hist) ->
  reported_block (run_index hist) t = Some bh ->
  exists bn ts, In (bh, bn, ts) hist /\ In t ts.
Proof.
  intros Hnd H. unfold reported_block, run_index in H.
  destruct (a_get N.eqb t (p_txs (fold_left index_block hist (mkPS [] [])))) as [bn|] eqn:Ht; [|discriminate].
  destruct (run_index_txs _ _ _ _ Ht) as [(bh' & ts & Hin & Hts)|Hg]; [|discriminate Hg].
  destruct (run_index_num _ _ _ _ H) as [[ts' Hin']|[Hg _]]; [|discriminate Hg].
  (* both blocks carry the number bn: they are the same entry of the history *)
  assert (Heq : (bh', bn, ts) = (bh, bn, ts')).
  { clear - Hnd Hin Hin'. induction hist as [|b hist IH]; [destruct Hin|]. cbn [numbers map] in Hnd. inversion Hnd as [|? ? Hno Hnd']; subst.
    destruct Hin as [->|Hin], Hin' as [E|Hin'].
    - exact E.
    - exfalso. apply Hno. apply in_map_iff. exists (bh, bn, ts'). split; [reflexivity | exact Hin'].
    - exfalso. apply Hno. subst b. apply in_map_iff. exists (bh', bn, ts). split; [reflexivity | exact Hin].
    - apply IH; assumption. }
  inversion Heq; subst. exists bn, ts'. split; assumption.
Qed.

(* ---- every writer (pstep): filter_block, add_fetched_tx, add_fetched_header, rollback_to_block ---- *)
Definition consistent (W : list (N * N * list txid)) : Prop :=
  forall bh bh' bn ts ts', In (bh, bn, ts) W -> In (bh', bn, ts') W -> bh = bh'.

Definition PInv (st : pstore) (W : list (N * N * list txid)) : Prop :=
  (forall t bn, a_get N.eqb t (p_txs st) = Some bn -> exists bh ts, In (bh, bn, ts) W /\ In t ts) /\
  (forall bn bh, a_get N.eqb bn (p_num st) = Some bh -> exists ts, In (bh, bn, ts) W).

Lemma PInv_weaken st W (W' : list (N * N * list txid)) : PInv st W -> PInv st (W ++ W').
Proof.
  intros [H1 H2]. split.
  - intros t bn H. destruct (H1 _ _ H) as (bh & ts & Hin & Ht). exists bh, ts. split; [apply in_or_app; left; exact Hin | exact Ht].
  - intros bn bh H. destruct (H2 _ _ H) as (ts & Hin). exists ts. apply in_or_app; left; exact Hin.
Qed.

Lemma num_put_inv st (W : list (N * N * list txid)) bh bn ts :
  (forall n h, a_get N.eqb n (p_num st) = Some h -> exists ts0, In (h, n, ts0) W) ->
  forall n h, a_get N.eqb n (a_put N.eqb bn bh (p_num st)) = Some h -> exists ts0, In (h, n, ts0) (W ++ [(bh, bn, ts)]).
Proof.
  intros H2 n h H. rewrite (a_get_put N.eqb Neqb_spec) in H. destruct (N.eqb_spec n bn) as [->|Hne].
  - inversion H; subst. exists ts. apply in_or_app. right. left. reflexivity.
  - destruct (H2 _ _ H) as (ts0 & Hin). exists ts0. apply in_or_app. left. exact Hin.
Qed.

Lemma pstep_inv st W o : PInv st W -> PInv (pstep st o) (W ++ record_of o).
Proof.
  intros Hinv. pose proof Hinv as [H1 H2]. destruct o as [bh bn ts|bh bn t0|bh bn|to].
  - destruct ts as [|x ts']; [cbn [pstep record_of]; rewrite app_nil_r; exact Hinv|].
    cbn [pstep record_of index_block]. split.
    + cbn [p_txs]. intros t n H. rewrite fold_put_get in H. destruct (existsb (N.eqb t) (x :: ts')) eqn:E.
      * inversion H; subst. exists bh, (x :: ts'). split; [apply in_or_app; right; left; reflexivity|].
        apply existsb_exists in E. destruct E as [y [Hy Ey]]. apply N.eqb_eq in Ey. subst. exact Hy.
      * destruct (H1 _ _ H) as (h & ts0 & Hin & Ht). exists h, ts0. split; [apply in_or_app; left; exact Hin | exact Ht].
    + cbn [p_num]. apply num_put_inv. exact H2.
  - cbn [pstep record_of]. split.
    + cbn [p_txs]. intros t n H. destruct (a_get N.eqb t0 (p_txs st)) as [n0|] eqn:G.
      * destruct (H1 _ _ H) as (h & ts0 & Hin & Ht). exists h, ts0. split; [apply in_or_app; left; exact Hin | exact Ht].
      * rewrite (a_get_put N.eqb Neqb_spec) in H. destruct (N.eqb_spec t t0) as [->|Hne].
        -- inversion H; subst. exists bh, [t0]. split; [apply in_or_app; right; left; reflexivity | left; reflexivity].
        -- destruct (H1 _ _ H) as (h & ts0 & Hin & Ht). exists h, ts0. split; [apply in_or_app; left; exact Hin | exact Ht].
    + cbn [p_num]. apply num_put_inv. exact H2.
  - cbn [pstep record_of]. split.
    + cbn [p_txs]. intros t n H. destruct (H1 _ _ H) as (h & ts0 & Hin & Ht). exists h, ts0. split; [apply in_or_app; left; exact Hin | exact Ht].
    + cbn [p_num]. apply num_put_inv. exact H2.
  - cbn [pstep record_of]. rewrite app_nil_r. exact Hinv.
Qed.

Lemma prun_inv_from ops : forall st W, PInv st W -> PInv (fold_left pstep ops st) (W ++ records ops).
Proof.
  induction ops as [|o ops IH]; intros st W H.
  - cbn. unfold records. cbn. rewrite app_nil_r. exact H.
  - cbn [fold_left]. unfold records. cbn [map concat]. rewrite app_assoc. apply IH. apply pstep_inv. exact H.
Qed.

Lemma prun_inv ops : PInv (prun ops) (records ops).
Proof.
  unfold prun. change (records ops) with ([] ++ records ops). apply prun_inv_from. split.
  - intros t bn H. discriminate H.
  - intros bn bh H. discriminate H.
Qed.

(* the block reported for a transaction was stored with it, whenever no height was written with two different hashes
   (writing the same header again, in any order and by any of the writers, is harmless) *)
Theorem pairing_truthful_ops ops t bh :
  consistent (records ops) ->
  reported_block (prun ops) t = Some bh ->
  exists bn ts, In (bh, bn, ts) (records ops) /\ In t ts.
Proof.
  intros Hc H. destruct (prun_inv ops) as [H1 H2]. unfold reported_block in H.
  destruct (a_get N.eqb t (p_txs (prun ops))) as [bn|] eqn:Ht; [|discriminate].
  destruct (H1 _ _ Ht) as (bh' & ts & Hin & Hts). destruct (H2 _ _ H) as (ts' & Hin').
  rewrite (Hc _ _ _ _ _ Hin Hin') in Hin. exists bn, ts. split; assumption.
Qed.

(* rollback_to_block changes nothing get_transaction_with_header reads *)
Lemma rollback_keeps_pairing st to t : reported_block (pstep st (PX_rollback to)) t = reported_block st t.
Proof. reflexivity. Qed.

(* get_transaction_with_header reads TxHash -> number, then `expect`s BlockNumber(number): the second map always has the number *)
Definition PTotal (st : pstore) : Prop :=
  forall t bn, a_get N.eqb t (p_txs st) = Some bn -> exists bh, a_get N.eqb bn (p_num st) = Some bh.

Lemma num_put_total (m : list (N * N)) bn bh n :
  (exists h, a_get N.eqb n m = Some h) \/ n = bn -> exists h, a_get N.eqb n (a_put N.eqb bn bh m) = Some h.
Proof.
  intros H. rewrite (a_get_put N.eqb Neqb_spec). destruct (N.eqb_spec n bn) as [E|E]; [exists bh; reflexivity|].
  destruct H as [H|H]; [exact H | contradiction].
Qed.

Lemma pstep_total st o : PTotal st -> PTotal (pstep st o).
Proof.
  intros H. destruct o as [bh bn ts|bh bn t0|bh bn|to]; [| | |exact H].
  - destruct ts as [|x ts']; [exact H|]. cbn [pstep index_block]. intros t n G. cbn [p_txs] in G. cbn [p_num].
    rewrite fold_put_get in G. apply num_put_total. destruct (existsb (N.eqb t) (x :: ts')).
    + inversion G; subst. right. reflexivity.
    + left. exact (H _ _ G).
  - cbn [pstep]. intros t n G. cbn [p_txs] in G. cbn [p_num]. apply num_put_total.
    destruct (a_get N.eqb t0 (p_txs st)) as [n0|] eqn:E.
    + left. exact (H _ _ G).
    + rewrite (a_get_put N.eqb Neqb_spec) in G. destruct (N.eqb_spec t t0) as [Et|Et].
      * inversion G; subst. right. reflexivity.
      * left. exact (H _ _ G).
  - cbn [pstep]. intros t n G. cbn [p_txs] in G. cbn [p_num]. apply num_put_total. left. exact (H _ _ G).
Qed.

Theorem pairing_total ops t bn :
  a_get N.eqb t (p_txs (prun ops)) = Some bn -> exists bh, a_get N.eqb bn (p_num (prun ops)) = Some bh.
Proof.
  unfold prun. assert (G : forall st, PTotal st -> PTotal (fold_left pstep ops st)).
  { induction ops as [|o ops IH]; intros st H; [exact H|]. cbn [fold_left]. apply IH. apply pstep_total. exact H. }
  apply G. intros t0 n0 H0. discriminate H0.
Qed.
