From Coq Require Import NArith PArith Lia Nnat Pnat.
From LC Require Import Loop.
Open Scope N_scope.

Section LoopProofs.
  Context {A B : Type} (f : A -> A + B).

  Lemma loop_nat_add (n m : nat) (a : A) :
    loop_nat f (n + m) a =
    match loop_nat f n a with
    | inl a' => loop_nat f m a'
    | inr b => inr b
    end.
  Proof.
    revert a; induction n as [|n IH]; intros a; cbn [Nat.add loop_nat]; [reflexivity|].
    destruct (f a) as [a'|b]; [apply IH | reflexivity].
  Qed.

  Lemma loop_pos_nat (p : positive) (a : A) :
    loop_pos f p a = loop_nat f (Pos.to_nat p) a.
  Proof.
    revert a; induction p as [p IH|p IH|]; intros a; cbn [loop_pos].
    - rewrite Pos2Nat.inj_xI. cbn [loop_nat].
      destruct (f a) as [a1|b]; [|reflexivity].
      replace (2 * Pos.to_nat p)%nat with (Pos.to_nat p + Pos.to_nat p)%nat by lia.
      rewrite loop_nat_add, <- IH.
      destruct (loop_pos f p a1) as [a2|b]; [apply IH | reflexivity].
    - rewrite Pos2Nat.inj_xO.
      replace (2 * Pos.to_nat p)%nat with (Pos.to_nat p + Pos.to_nat p)%nat by lia.
      rewrite loop_nat_add, <- IH.
      destruct (loop_pos f p a) as [a2|b]; [apply IH | reflexivity].
    - change (Pos.to_nat 1) with 1%nat. cbn [loop_nat]. destruct (f a); reflexivity.
  Qed.

  Lemma loopN_nat (n : N) (a : A) : loopN f n a = loop_nat f (N.to_nat n) a.
  Proof.
    destruct n as [|p]; cbn [loopN N.to_nat]; [reflexivity | apply loop_pos_nat].
  Qed.

  (* Invariant rule: if [P] holds initially and every non-exiting step preserves it, and every
     exit satisfies [Q], then the loop result satisfies P (no exit) or Q (exit). *)
  Lemma loop_nat_inv (P : A -> Prop) (Q : B -> Prop) :
    (forall a a', P a -> f a = inl a' -> P a') ->
    (forall a b, P a -> f a = inr b -> Q b) ->
    forall n a, P a ->
      match loop_nat f n a with inl a' => P a' | inr b => Q b end.
  Proof.
    intros Hstep Hexit n; induction n as [|n IH]; intros a Ha; cbn [loop_nat]; [exact Ha|].
    destruct (f a) as [a'|b] eqn:E; [apply IH; eapply Hstep; eauto | eapply Hexit; eauto].
  Qed.

  Lemma loopN_inv (P : A -> Prop) (Q : B -> Prop) :
    (forall a a', P a -> f a = inl a' -> P a') ->
    (forall a b, P a -> f a = inr b -> Q b) ->
    forall n a, P a ->
      match loopN f n a with inl a' => P a' | inr b => Q b end.
  Proof. intros H1 H2 n a Ha. rewrite loopN_nat. apply loop_nat_inv; assumption. Qed.
End LoopProofs.
