(* placeholder until the proofs are in *)
From LC Require Import Filters.
Theorem C06_placeholder : True. Proof. exact I. Qed.
Print Assumptions C06_placeholder.
