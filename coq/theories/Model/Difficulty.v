(* Model of the difficulty checks in
   src/protocols/light_client/components/send_last_state_proof.rs:
   EpochDifficultyTrend::{new, check_tau, calculate_tau_exponent, split_epochs,
   check_total_difficulty_limit}, remove_last_epoch, verify_tau, verify_total_difficulty.
   Definitions only.  [compact_to_difficulty] (ckb-types) is an oracle: the block difficulty
   belonging to each compact target is an input. *)
From LC Require Export U Loop.
Open Scope N_scope.

Record epoch := mkEpoch { e_num : N; e_idx : N; e_len : N }.

(* error codes of this file (only Ok / Err / Panic is compared with the implementation) *)
Definition E_COMPACT_TARGET : N := 1.
Definition E_DECREASED : N := 2.
Definition E_MISMATCH : N := 3.
Definition E_TOO_FAST : N := 4.
Definition E_BELOW_MIN : N := 5.
Definition E_ABOVE_MAX : N := 6.
Definition E_ILLFORMED : N := 7.

(* panic sites = source lines at the pinned commit (informational) *)
Definition S_TAU_MUL_S : N := 968.
Definition S_TAU_MUL_E : N := 969.
Definition S_TAU_SUB : N := 971.
Definition S_TD_IDX_SUB : N := 1000.
Definition S_TD_MUL : N := 1001.
Definition S_TD_EPOCH_MUL_S : N := 1019.
Definition S_TD_EPOCH_MUL_E : N := 1020.
Definition S_TD_NUM_SUB : N := 1022.
Definition S_TD_LEN_SUB : N := 1038.
Definition S_TD_UNALIGNED : N := 1040.
Definition S_SPLIT : N := 494.
Definition S_REMOVE_LAST : N := 628.
Definition S_LIMIT_OVERFLOW : N := 550.
Definition S_LIMIT_FINAL_ADD : N := 602.
Definition S_DIV_ZERO : N := 416.

Inductive trend : Type :=
| Unchanged
| Increased (s e : N)
| Decreased (s e : N).

Definition trend_new (s e : N) : trend :=
  match s ?= e with
  | Eq => Unchanged
  | Lt => Increased s e
  | Gt => Decreased s e
  end.

(* [for _ in 0..cnt { x = x.saturating_mul(tau) }] and [for _ in 0..cnt { x /= tau }] *)
Definition grow (tau cnt x : N) : N := N.iter cnt (fun y => sat_mul256 y tau) x.
Definition shrink (tau cnt x : N) : N := N.iter cnt (fun y => y / tau) x.

(* precondition of the whole file: tau > 0 (the constant TAU = 2); [x /= 0] would panic *)
Definition check_tau (t : trend) (tau cnt : N) : bool :=
  match t with
  | Unchanged => true
  | Increased s e => e <=? grow tau cnt s
  | Decreased s e => shrink tau cnt s <=? e
  end.

Definition tau_exp_step_inc (tau e : N) (st : N * N) : (N * N) + N :=
  let '(tmp, k) := st in
  let tmp' := sat_mul256 tmp tau in
  if e <=? tmp' then inr k else inl (tmp', k + 1).

Definition tau_exp_step_dec (tau e : N) (st : N * N) : (N * N) + N :=
  let '(tmp, k) := st in
  let tmp' := tmp / tau in
  if tmp' <=? e then inr k else inl (tmp', k + 1).

Definition calculate_tau_exponent (t : trend) (tau limit : N) : option N :=
  match t with
  | Unchanged => Some 0
  | Increased s e =>
      match loopN (tau_exp_step_inc tau e) limit (s, 0) with
      | inr k => Some k
      | inl _ => None
      end
  | Decreased s e =>
      match loopN (tau_exp_step_dec tau e) limit (s, 0) with
      | inr k => Some k
      | inl _ => None
      end
  end.

Inductive limit_kind := LMin | LMax.

(* (group is "increased"?, epochs count) *)
Definition group : Type := bool * N.
Record details := mkDetails { d_start : group; d_end : group }.

(* u64 arithmetic, checked *)
Definition split_epochs (t : trend) (lim : limit_kind) (n k : N) : res details :=
  let* incdec :=
    match lim, t with
    | LMin, Unchanged =>
        let* n1 := add64 S_SPLIT n 1 in
        let dec := n1 / 2 in
        let* inc := sub_chk S_SPLIT n dec in Ok (inc, dec)
    | LMax, Unchanged =>
        let* n1 := add64 S_SPLIT n 1 in
        let inc := n1 / 2 in
        let* dec := sub_chk S_SPLIT n inc in Ok (inc, dec)
    | LMin, Increased _ _ =>
        let* nk := sub_chk S_SPLIT n k in
        let* nk1 := add64 S_SPLIT nk 1 in
        let dec := nk1 / 2 in
        let* inc := sub_chk S_SPLIT n dec in Ok (inc, dec)
    | LMax, Increased _ _ =>
        let* nk := sub_chk S_SPLIT n k in
        let* nk1 := add64 S_SPLIT nk 1 in
        let* inc := add64 S_SPLIT (nk1 / 2) k in
        let* dec := sub_chk S_SPLIT n inc in Ok (inc, dec)
    | LMin, Decreased _ _ =>
        let* nk := sub_chk S_SPLIT n k in
        let* nk1 := add64 S_SPLIT nk 1 in
        let* dec := add64 S_SPLIT (nk1 / 2) k in
        let* inc := sub_chk S_SPLIT n dec in Ok (inc, dec)
    | LMax, Decreased _ _ =>
        let* nk := sub_chk S_SPLIT n k in
        let* nk1 := add64 S_SPLIT nk 1 in
        let inc := nk1 / 2 in
        let* dec := sub_chk S_SPLIT n inc in Ok (inc, dec)
    end in
  let '(inc, dec) := incdec in
  match lim with
  | LMin => Ok (mkDetails (false, dec) (true, inc))
  | LMax => Ok (mkDetails (true, inc) (false, dec))
  end.

Definition subtract1 (g : group) : res group :=
  let* c := sub_chk S_REMOVE_LAST (snd g) 1 in Ok (fst g, c).

Definition remove_last_epoch (d : details) : res details :=
  if snd (d_end d) =? 0 then
    let* s := subtract1 (d_start d) in Ok (mkDetails s (d_end d))
  else
    let* e := subtract1 (d_end d) in Ok (mkDetails (d_start d) e).

(* one iteration of either inner loop of check_total_difficulty_limit;
   state = (curr, total); early exit carries the function's return value *)
Definition limit_step (is_inc check_max : bool) (tau actual : N) (st : N * N)
  : (N * N) + res unit :=
  let '(curr, total) := st in
  let curr' := if is_inc then sat_mul256 curr tau else curr / tau in
  if total + curr' <=? U256MAX then
    let total' := total + curr' in
    if actual <=? total' then
      inr (if check_max then Ok tt else Err E_BELOW_MIN)
    else inl (curr', total')
  else (* limit exceeds U256::MAX (fix commit: no longer a panic) *)
    inr (if check_max then Ok tt else Err E_BELOW_MIN).

Definition run_group (g : group) (check_max : bool) (tau actual : N) (st : N * N)
  : (N * N) + res unit :=
  loopN (limit_step (fst g) check_max tau actual) (snd g) st.

Definition check_total_difficulty_limit
  (t : trend) (lim : limit_kind) (n k actual start tau unaligned : N) : res unit :=
  let* d0 := split_epochs t lim n k in
  let* d := remove_last_epoch d0 in
  let check_max := match lim with LMax => true | LMin => false end in
  match run_group (d_start d) check_max tau actual (start, 0) with
  | inr r => r
  | inl st1 =>
      match run_group (d_end d) check_max tau actual st1 with
      | inr r => r
      | inl (_, total) =>
          if total + unaligned <=? U256MAX then
            let bound := total + unaligned in
            if check_max then
              if actual <=? bound then Ok tt else Err E_ABOVE_MAX
            else
              if bound <=? actual then Ok tt else Err E_BELOW_MIN
          else if check_max then Ok tt else Err E_BELOW_MIN
      end
  end.

(* verify_tau(start_epoch, start_compact_target, end_epoch, end_compact_target, tau);
   sbd/ebd = compact_to_difficulty of the two compact targets (oracle values) *)
Definition verify_tau (se : epoch) (sct sbd : N) (ee : epoch) (ect ebd : N) (tau : N)
  : res bool :=
  if e_num se =? e_num ee then
    if sct =? ect then Ok true else Err E_COMPACT_TARGET
  else
    let* sed := mul256 S_TAU_MUL_S sbd (e_len se) in
    let* eed := mul256 S_TAU_MUL_E ebd (e_len ee) in
    if e_num ee <? e_num se then Err E_COMPACT_TARGET (* checked_sub, fix commit *) else
    let cnt := e_num ee - e_num se in
    Ok (check_tau (trend_new sed eed) tau cnt).

Definition verify_total_difficulty
  (se : epoch) (sbd std : N) (ee : epoch) (ebd etd : N) (tau : N) : res unit :=
  if etd <? std then Err E_DECREASED else
  let total := etd - std in
  (* guard added by the fix commit: unordered or ill-formed epochs are an error *)
  if orb (orb (e_num ee <? e_num se) (andb (e_num se =? e_num ee) (e_idx ee <? e_idx se)))
         (e_len se <=? e_idx se) then Err E_ILLFORMED else
  if e_num se =? e_num ee then
    let* cnt := sub_chk S_TD_IDX_SUB (e_idx ee) (e_idx se) in
    let* calc := mul256 S_TD_MUL sbd cnt in
    if total =? calc then Ok tt else Err E_MISMATCH
  else
    let* sed := mul256 S_TD_EPOCH_MUL_S sbd (e_len se) in
    let* eed := mul256 S_TD_EPOCH_MUL_E ebd (e_len ee) in
    let* n := sub_chk S_TD_NUM_SUB (e_num ee) (e_num se) in
    let t := trend_new sed eed in
    match calculate_tau_exponent t tau n with
    | None => Err E_TOO_FAST
    | Some k =>
        let* l1 := sub_chk S_TD_LEN_SUB (e_len se) (e_idx se) in
        let* sc := sub_chk S_TD_LEN_SUB l1 1 in
        let ec := e_idx ee + 1 in
        let* u1 := mul256 S_TD_UNALIGNED sbd sc in
        let* u2 := mul256 S_TD_UNALIGNED ebd ec in
        let* unaligned := add256 S_TD_UNALIGNED u1 u2 in
        if n =? 1 then
          if total =? unaligned then Ok tt else Err E_MISMATCH
        else
          let* _ := check_total_difficulty_limit t LMin n k total sed tau unaligned in
          check_total_difficulty_limit t LMax n k total sed tau unaligned
    end.
