//! A recording CKBProtocolContext and a panic-catching driver for the async handlers.
use std::cell::RefCell;
use std::future::Future;
use std::pin::Pin;
use std::sync::Arc;
use std::task::{Context, Poll, Wake, Waker};
use std::time::Duration;

use ckb_network::{
    async_trait, bytes::Bytes as P2pBytes, Behaviour, CKBProtocolContext, Error, Peer, PeerIndex, ProtocolId,
    SupportProtocols, TargetSession,
};

pub(crate) struct Rec {
    protocol: SupportProtocols,
    pub sent: RefCell<Vec<(ProtocolId, PeerIndex, P2pBytes)>>,
    pub banned: RefCell<Vec<(PeerIndex, String)>>,
    pub disconnected: RefCell<Vec<PeerIndex>>,
    pub connected: RefCell<Vec<PeerIndex>>,
    /// session -> address (with a peer id) for protocols that look the peer up
    pub addrs: RefCell<std::collections::HashMap<PeerIndex, ckb_network::multiaddr::Multiaddr>>,
}

unsafe impl Send for Rec {}
unsafe impl Sync for Rec {}

pub(crate) struct Ctx {
    pub inner: Arc<Rec>,
}

impl Ctx {
    pub(crate) fn new(protocol: SupportProtocols) -> Ctx {
        Ctx {
            inner: Arc::new(Rec {
                protocol,
                sent: Default::default(),
                banned: Default::default(),
                disconnected: Default::default(),
                connected: Default::default(),
                addrs: Default::default(),
            }),
        }
    }
    pub(crate) fn context(&self) -> Arc<dyn CKBProtocolContext + Sync> {
        Arc::clone(&self.inner) as Arc<dyn CKBProtocolContext + Sync>
    }
    pub(crate) fn take_sent(&self) -> Vec<(ProtocolId, PeerIndex, P2pBytes)> {
        std::mem::take(&mut *self.inner.sent.borrow_mut())
    }
    pub(crate) fn take_banned(&self) -> Vec<(PeerIndex, String)> {
        std::mem::take(&mut *self.inner.banned.borrow_mut())
    }
    pub(crate) fn take_disconnected(&self) -> Vec<PeerIndex> {
        std::mem::take(&mut *self.inner.disconnected.borrow_mut())
    }
    /// give session `peer` an address carrying a fresh peer id; returns the id's text form
    pub(crate) fn set_peer_id(&self, peer: PeerIndex) -> String {
        let id = ckb_network::PeerId::random();
        let addr: ckb_network::multiaddr::Multiaddr = format!("/ip4/127.0.0.1/tcp/8114/p2p/{}", id.to_base58()).parse().expect("multiaddr");
        self.inner.addrs.borrow_mut().insert(peer, addr);
        id.to_base58()
    }
    pub(crate) fn set_connected(&self, peers: Vec<PeerIndex>) {
        *self.inner.connected.borrow_mut() = peers;
    }
}

/// the numeric status code at the start of a ban reason ("InvalidNonce(432): ...")
pub(crate) fn ban_code(reason: &str) -> u64 {
    reason
        .split('(')
        .nth(1)
        .and_then(|s| s.split(')').next())
        .and_then(|s| s.parse().ok())
        .unwrap_or(if reason.contains("malformed") { 400 } else { 999 })
}

#[async_trait]
impl CKBProtocolContext for Rec {
    async fn set_notify(&self, _interval: Duration, _token: u64) -> Result<(), Error> {
        Ok(())
    }
    async fn remove_notify(&self, _token: u64) -> Result<(), Error> {
        Ok(())
    }
    async fn async_quick_send_message(&self, proto_id: ProtocolId, peer_index: PeerIndex, data: P2pBytes) -> Result<(), Error> {
        self.send_message(proto_id, peer_index, data)
    }
    async fn async_quick_send_message_to(&self, peer_index: PeerIndex, data: P2pBytes) -> Result<(), Error> {
        self.send_message(self.protocol_id(), peer_index, data)
    }
    async fn async_quick_filter_broadcast(&self, _target: TargetSession, _data: P2pBytes) -> Result<(), Error> {
        Ok(())
    }
    async fn async_future_task(&self, _task: Pin<Box<dyn Future<Output = ()> + 'static + Send>>, _blocking: bool) -> Result<(), Error> {
        Ok(())
    }
    async fn async_send_message(&self, proto_id: ProtocolId, peer_index: PeerIndex, data: P2pBytes) -> Result<(), Error> {
        self.send_message(proto_id, peer_index, data)
    }
    async fn async_send_message_to(&self, peer_index: PeerIndex, data: P2pBytes) -> Result<(), Error> {
        self.send_message(self.protocol_id(), peer_index, data)
    }
    fn quick_send_message(&self, proto_id: ProtocolId, peer_index: PeerIndex, data: P2pBytes) -> Result<(), Error> {
        self.send_message(proto_id, peer_index, data)
    }
    fn quick_send_message_to(&self, peer_index: PeerIndex, data: P2pBytes) -> Result<(), Error> {
        self.send_message(self.protocol_id(), peer_index, data)
    }
    async fn async_filter_broadcast(&self, _target: TargetSession, _data: P2pBytes) -> Result<(), Error> {
        Ok(())
    }
    async fn async_disconnect(&self, peer_index: PeerIndex, message: &str) -> Result<(), Error> {
        self.disconnect(peer_index, message)
    }
    fn quick_filter_broadcast(&self, _target: TargetSession, _data: P2pBytes) -> Result<(), Error> {
        Ok(())
    }
    fn future_task(&self, _task: Pin<Box<dyn Future<Output = ()> + 'static + Send>>, _blocking: bool) -> Result<(), Error> {
        Ok(())
    }
    fn send_message(&self, proto_id: ProtocolId, peer_index: PeerIndex, data: P2pBytes) -> Result<(), Error> {
        self.sent.borrow_mut().push((proto_id, peer_index, data));
        Ok(())
    }
    fn send_message_to(&self, peer_index: PeerIndex, data: P2pBytes) -> Result<(), Error> {
        self.send_message(self.protocol_id(), peer_index, data)
    }
    fn filter_broadcast(&self, _target: TargetSession, _data: P2pBytes) -> Result<(), Error> {
        Ok(())
    }
    fn disconnect(&self, peer_index: PeerIndex, _message: &str) -> Result<(), Error> {
        self.disconnected.borrow_mut().push(peer_index);
        self.connected.borrow_mut().retain(|p| *p != peer_index);
        Ok(())
    }
    fn get_peer(&self, peer_index: PeerIndex) -> Option<Peer> {
        self.addrs.borrow().get(&peer_index).map(|a| Peer::new(peer_index, ckb_network::SessionType::Outbound, a.clone(), false))
    }
    fn with_peer_mut(&self, _peer_index: PeerIndex, _f: Box<dyn FnOnce(&mut Peer)>) {}
    fn connected_peers(&self) -> Vec<PeerIndex> {
        self.connected.borrow().clone()
    }
    fn report_peer(&self, _peer_index: PeerIndex, _behaviour: Behaviour) {}
    fn ban_peer(&self, peer_index: PeerIndex, _duration: Duration, reason: String) {
        self.banned.borrow_mut().push((peer_index, reason));
    }
    fn protocol_id(&self) -> ProtocolId {
        self.protocol.protocol_id()
    }
    fn ckb2023(&self) -> bool {
        false
    }
}

struct NoopWake;
impl Wake for NoopWake {
    fn wake(self: Arc<Self>) {}
}

/// Drive a handler future to completion on this thread; Err(()) if it panicked.
pub(crate) fn drive<F: Future>(fut: F) -> Result<F::Output, ()> {
    let waker = Waker::from(Arc::new(NoopWake));
    let mut cx = Context::from_waker(&waker);
    let mut fut = Box::pin(fut);
    for _ in 0..10_000 {
        let r = std::panic::catch_unwind(std::panic::AssertUnwindSafe(|| fut.as_mut().poll(&mut cx)));
        match r {
            Err(_) => return Err(()),
            Ok(Poll::Ready(v)) => return Ok(v),
            Ok(Poll::Pending) => continue,
        }
    }
    Err(())
}
