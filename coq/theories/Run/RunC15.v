From LC Require Export Val Sampling.
Open Scope N_scope.

Definition run_multiply (u num : N) : val := VN (multiply u num).
Definition run_estimate (blocks_count last_n m : N) : val := VN (estimate_samples_count blocks_count last_n m).

(* observation: [0; samples_count; boundary; difficulties] or [3] for a panic *)
Definition run_sample_blocks (sn sd ln ld last_n m num_b : N) (nums : list N) : val :=
  match sample_blocks sn sd ln ld last_n m num_b nums with
  | Ok (c, b, ds) => VL [VN 0; VN c; VN b; vlist VN ds]
  | Err _ => VL [VN 1]
  | Panic _ => VL [VN 3]
  end.

Definition obs_request (r : request) : val :=
  VL [VN (rq_start_hash r); VN (rq_start_number r); VN (rq_boundary r); vlist VN (rq_difficulties r)].

Definition run_build_request (last_n ln ltd sh sn std : N) (stored : list (N * N)) (m num_b : N) (nums : list N) : val :=
  match build_request last_n ln ltd sh sn std stored m num_b nums with
  | Ok o => VL [VN 0; vopt obs_request o]
  | Err _ => VL [VN 1]
  | Panic _ => VL [VN 3]
  end.
