(* Byte-level model of the index queries of src/service.rs: build_query_options,
   build_filter_options, get_cells, get_transactions (ungrouped and grouped), get_cells_capacity.
   The store is the list of (key, attributes) in RocksDB order (bytewise lexicographic, the default
   comparator); keys are exactly the bytes Key::into_vec builds.  The attributes of an entry are
   what the RPC reads from the referenced transaction (output lock / type raw data, data length,
   capacity, transaction id); they are supplied with the dump. *)
From Coq Require Export NArith List Bool.
Export ListNotations.
Open Scope N_scope.
Open Scope bool_scope.

Definition bytes := list N.

Fixpoint bytes_cmp (a b : bytes) : comparison :=
  match a, b with
  | [], [] => Eq
  | [], _ => Lt
  | _, [] => Gt
  | x :: a', y :: b' => match x ?= y with Eq => bytes_cmp a' b' | c => c end
  end.
Definition bytes_leb (a b : bytes) : bool := match bytes_cmp a b with Gt => false | _ => true end.
Definition bytes_eqb (a b : bytes) : bool := match bytes_cmp a b with Eq => true | _ => false end.

Fixpoint starts_with (k p : bytes) : bool :=
  match p, k with
  | [], _ => true
  | _, [] => false
  | y :: p', x :: k' => (x =? y) && starts_with k' p'
  end.

Fixpoint be_num (bs : bytes) (acc : N) : N :=
  match bs with [] => acc | b :: tl => be_num tl (acc * 256 + b) end.

Definition sub (k : bytes) (from_end len : nat) : bytes :=
  firstn len (skipn (length k - from_end) k).

(* attributes of the output a cell entry refers to *)
Record centry := mkCE {
  ce_key : bytes; ce_tx : N;
  ce_lock : bytes; ce_type : option bytes; ce_data_len : N; ce_cap : N
}.

Definition cell_block (k : bytes) : N := be_num (sub k 16 8) 0.
Definition cell_txidx (k : bytes) : N := be_num (sub k 8 4) 0.
Definition cell_out (k : bytes) : N := be_num (sub k 4 4) 0.

Fixpoint take_while {A} (p : A -> bool) (l : list A) : list A :=
  match l with [] => [] | a :: tl => if p a then a :: take_while p tl else [] end.

(* IteratorMode::From(key, Forward / Reverse) on a store given in key order *)
Definition seek {E} (key_of : E -> bytes) (from : bytes) (fwd : bool) (db : list E) : list E :=
  if fwd then filter (fun e => bytes_leb from (key_of e)) db
  else rev (filter (fun e => bytes_leb (key_of e) from) db).

Definition MAX_PREFIX : nat := N.to_nat 65535.

(* build_query_options: (prefix, from_key, forward?, skip) *)
Definition query_options (tag : N) (script_raw : bytes) (args_len : nat) (asc : bool) (cursor : option bytes)
  : bytes * bytes * bool * nat :=
  let prefix := tag :: script_raw in
  match asc, cursor with
  | true, None => (prefix, prefix, true, 0%nat)
  | true, Some c => (prefix, c, true, 1%nat)
  | false, None => (prefix, prefix ++ repeat 255 (MAX_PREFIX - args_len), false, 0%nat)
  | false, Some c => (prefix, c, false, 1%nat)
  end.

Definition scan {E} (key_of : E -> bytes) (tag : N) (script_raw : bytes) (args_len : nat)
                (asc : bool) (cursor : option bytes) (db : list E) : list E :=
  let '(prefix, from, fwd, skip) := query_options tag script_raw args_len asc cursor in
  take_while (fun e => starts_with (key_of e) prefix) (skipn skip (seek key_of from fwd db)).

(* the five filters of get_cells / get_cells_capacity; [other_is_lock] = the filter applies to the lock script *)
Record cfilter := mkCF {
  f_script_prefix : option bytes;
  f_script_len : option (N * N);     (* inclusive on both sides, as implemented *)
  f_data_len : option (N * N);       (* [r0, r1) *)
  f_capacity : option (N * N);       (* [r0, r1) *)
  f_block : option (N * N)           (* [r0, r1) *)
}.

Definition in_half_open (x : N) (r : option (N * N)) : bool :=
  match r with None => true | Some (a, b) => (a <=? x) && (x <? b) end.

Definition cell_pass (other_is_lock : bool) (f : cfilter) (e : centry) : bool :=
  let other : option bytes := if other_is_lock then Some (ce_lock e) else ce_type e in
  (match f_script_prefix f with
   | None => true
   | Some p => match other with Some raw => starts_with raw p | None => false end
   end)
  && (match f_script_len f with
      | None => true
      | Some (a, b) => let len := match other with Some raw => N.of_nat (length raw) | None => 0 end in
                       (a <=? len) && (len <=? b)
      end)
  && in_half_open (ce_data_len e) (f_data_len f)
  && in_half_open (ce_cap e) (f_capacity f)
  && in_half_open (cell_block (ce_key e)) (f_block f).

Definition last_key {E} (key_of : E -> bytes) (l : list E) : bytes :=
  match rev l with [] => [] | e :: _ => key_of e end.

Definition get_cells (tag : N) (script_raw : bytes) (args_len : nat) (other_is_lock : bool) (f : cfilter)
                     (asc : bool) (limit : nat) (cursor : option bytes) (db : list centry)
  : list centry * bytes :=
  let page := firstn limit (filter (cell_pass other_is_lock f) (scan ce_key tag script_raw args_len asc cursor db)) in
  (page, last_key ce_key page).

Definition get_cells_capacity (tag : N) (script_raw : bytes) (args_len : nat) (other_is_lock : bool) (f : cfilter)
                              (db : list centry) : N :=
  fold_right N.add 0 (map ce_cap (filter (cell_pass other_is_lock f) (scan ce_key tag script_raw args_len true None db))).

(* ---- transactions ---- *)
Record tentry := mkTE { te_key : bytes; te_tx : N }.

Definition tx_block (k : bytes) : N := be_num (sub k 17 8) 0.
Definition tx_txidx (k : bytes) : N := be_num (sub k 9 4) 0.
Definition tx_io (k : bytes) : N := be_num (sub k 5 4) 0.
Definition tx_iotype (k : bytes) : N := be_num (sub k 1 1) 0.

(* filter.script: an entry with the same (block, tx index, io index, io type) must exist under the filter
   script in the other index; [other_keys] = the keys of that script there, suffix = the last 17 bytes *)
Definition tx_pass (filter_suffixes : option (list bytes)) (block : option (N * N)) (e : tentry) : bool :=
  (match filter_suffixes with
   | None => true
   | Some l => existsb (bytes_eqb (sub (te_key e) 17 17)) l
   end)
  && in_half_open (tx_block (te_key e)) block.

Definition get_txs (tag : N) (script_raw : bytes) (args_len : nat) (fs : option (list bytes)) (block : option (N * N))
                   (asc : bool) (limit : nat) (cursor : option bytes) (db : list tentry)
  : list tentry * bytes :=
  let page := firstn limit (filter (tx_pass fs block) (scan te_key tag script_raw args_len asc cursor db)) in
  (page, last_key te_key page).

(* grouped: the loop of get_transactions with group_by_transaction; a group = (tx, its entries) *)
Fixpoint group_loop (fs : option (list bytes)) (block : option (N * N)) (limit : nat)
                    (es : list tentry) (groups : list (N * list tentry)) (lastk : bytes)
  : list (N * list tentry) * bytes :=
  match es with
  | [] => (groups, lastk)
  | e :: tl =>
      let last_tx := match rev groups with (t, _) :: _ => Some t | [] => None end in
      if (Nat.eqb (length groups) limit) && negb (match last_tx with Some t => t =? te_tx e | None => false end)
      then (groups, lastk)
      else
        if tx_pass fs block e then
          match last_tx with
          | Some t =>
              if t =? te_tx e then
                group_loop fs block limit tl
                  (match rev groups with (t0, cells) :: r => rev r ++ [(t0, cells ++ [e])] | [] => groups end)
                  (te_key e)
              else group_loop fs block limit tl (groups ++ [(te_tx e, [e])]) (te_key e)
          | None => group_loop fs block limit tl (groups ++ [(te_tx e, [e])]) (te_key e)
          end
        else group_loop fs block limit tl groups (te_key e)
  end.

Definition get_txs_grouped (tag : N) (script_raw : bytes) (args_len : nat) (fs : option (list bytes)) (block : option (N * N))
                           (asc : bool) (limit : nat) (cursor : option bytes) (db : list tentry)
  : list (N * list tentry) * bytes :=
  group_loop fs block limit (scan te_key tag script_raw args_len asc cursor db) [] [].
