From LC Require Export Val Query.
Open Scope N_scope.

Definition obs_bytes (b : bytes) : val := vlist VN b.
Definition obs_cell (e : centry) : val :=
  VL [VN (cell_block (ce_key e)); VN (cell_txidx (ce_key e)); VN (cell_out (ce_key e)); VN (ce_tx e); VN (ce_cap e)].
Definition obs_tx (e : tentry) : val :=
  VL [VN (tx_block (te_key e)); VN (tx_txidx (te_key e)); VN (tx_io (te_key e)); VN (tx_iotype (te_key e)); VN (te_tx e)].

Definition run_get_cells (tag : N) (raw : bytes) (args_len : N) (other_is_lock : bool) (f : cfilter)
                         (asc : bool) (limit : N) (cursor : option bytes) (db : list centry) : val :=
  let '(page, lk) := get_cells tag raw (N.to_nat args_len) other_is_lock f asc (N.to_nat limit) cursor db in
  VL [vlist obs_cell page; obs_bytes lk].

Definition run_capacity (tag : N) (raw : bytes) (args_len : N) (other_is_lock : bool) (f : cfilter) (db : list centry) : val :=
  VN (get_cells_capacity tag raw (N.to_nat args_len) other_is_lock f db).

Definition run_get_txs (tag : N) (raw : bytes) (args_len : N) (fs : option (list bytes)) (block : option (N * N))
                       (asc : bool) (limit : N) (cursor : option bytes) (db : list tentry) : val :=
  let '(page, lk) := get_txs tag raw (N.to_nat args_len) fs block asc (N.to_nat limit) cursor db in
  VL [vlist obs_tx page; obs_bytes lk].

Definition run_get_txs_grouped (tag : N) (raw : bytes) (args_len : N) (fs : option (list bytes)) (block : option (N * N))
                               (asc : bool) (limit : N) (cursor : option bytes) (db : list tentry) : val :=
  let '(groups, lk) := get_txs_grouped tag raw (N.to_nat args_len) fs block asc (N.to_nat limit) cursor db in
  VL [vlist (fun g : N * list tentry => VL [VN (fst g); vlist (fun e => VL [VN (tx_iotype (te_key e)); VN (tx_io (te_key e))]) (snd g)]) groups;
      obs_bytes lk].
