(* C04, first half: what the transaction history (Tx{Lock,Type}Script key spaces) and the transaction table hold after a
   chain has been indexed block by block with filter_block.  The rollback proof (RollbackRefinement.v) needs exactly
   this: every output paying a registered script has its output entry, every input spending such an output has its input
   entry carrying the spending transaction's identity, and every input entry is of that kind. *)
From Coq Require Import NArith Lia List Bool.
From LC Require Import Store StoreProofs IndexSpec IndexRefinement IndexSpecMeaning.
Import ListNotations.
Open Scope N_scope.
Open Scope bool_scope.

Definition pays_st (st : store) := pays (registered st).

Lemma pays_dec_ops st stype s o : pays_st st stype s o ->
  forall bn ti t oi, In (W_put_hist (stype, s, bn, ti, oi, 1) (t_id t)) (output_ops st bn ti t oi o) /\
                     In (W_put_tx (t_id t) (bn, ti, t)) (output_ops st bn ti t oi o).
Proof.
  intros [[-> [-> R]]|[-> [Ht R]]] bn ti t oi; unfold output_ops.
  - rewrite R. split; apply in_or_app; left; [right; left | right; right; left]; reflexivity.
  - rewrite Ht, R. split; apply in_or_app; right; [right; left | right; right; left]; reflexivity.
Qed.

(* ---- what a history put in a block's batch looks like ---- *)
Lemma output_ops_put_hist st bn ti t oi o k v :
  In (W_put_hist k v) (output_ops st bn ti t oi o) ->
  v = t_id t /\ In (W_put_tx v (bn, ti, t)) (output_ops st bn ti t oi o) /\
  exists stype s, k = (stype, s, bn, ti, oi, 1) /\ pays_st st stype s o.
Proof.
  unfold output_ops. intros H. apply in_app_or in H. destruct H as [H|H].
  - destruct (registered st 0 (o_lock o)) eqn:R; [|destruct H].
    destruct H as [H|[H|[H|[]]]]; try discriminate. inversion H; subst. split; [reflexivity|]. split.
    + apply in_or_app. left. right. right. left. reflexivity.
    + exists 0, (o_lock o). split; [reflexivity|]. left. repeat split. exact R.
  - destruct (o_type o) as [s|] eqn:Ht; [|destruct H]. destruct (registered st 1 s) eqn:R; [|destruct H].
    destruct H as [H|[H|[H|[]]]]; try discriminate. inversion H; subst. split; [reflexivity|]. split.
    + apply in_or_app. right. right. right. left. reflexivity.
    + exists 1, s. split; [reflexivity|]. right. repeat split; assumption.
Qed.

Lemma input_ops_put_hist st bn ti t local ii inp k v :
  In (W_put_hist k v) (input_ops st bn ti t local ii inp) ->
  v = t_id t /\ In (W_put_tx v (bn, ti, t)) (input_ops st bn ti t local ii inp) /\
  exists stype s g po, k = (stype, s, bn, ti, ii, 0) /\ find_prev st bn local (fst inp) = Some g /\
                       nth_error (t_outputs (snd g)) (N.to_nat (snd inp)) = Some po /\ pays_st st stype s po.
Proof.
  unfold input_ops. destruct (find_prev st bn local (fst inp)) as [[[gbn gti] ptx]|] eqn:Fp; [|intros []].
  destruct (nth_error (t_outputs ptx) (N.to_nat (snd inp))) as [po|] eqn:Hn; [|intros []].
  intros H. apply in_app_or in H. destruct H as [H|H].
  - destruct (registered st 0 (o_lock po)) eqn:R; [|destruct H].
    destruct H as [H|[H|[H|[]]]]; try discriminate. inversion H; subst. split; [reflexivity|]. split.
    + apply in_or_app. left. right. right. left. reflexivity.
    + exists 0, (o_lock po), (gbn, gti, ptx), po. repeat split; try assumption. left. repeat split. exact R.
  - destruct (o_type po) as [s|] eqn:Ht; [|destruct H]. destruct (registered st 1 s) eqn:R; [|destruct H].
    destruct H as [H|[H|[H|[]]]]; try discriminate. inversion H; subst. split; [reflexivity|]. split.
    + apply in_or_app. right. right. right. left. reflexivity.
    + exists 1, s, (gbn, gti, ptx), po. repeat split; try assumption. right. repeat split; assumption.
Qed.

Lemma input_ops_records st bn ti t local ii inp g po stype s :
  find_prev st bn local (fst inp) = Some g -> nth_error (t_outputs (snd g)) (N.to_nat (snd inp)) = Some po ->
  pays_st st stype s po ->
  In (W_put_hist (stype, s, bn, ti, ii, 0) (t_id t)) (input_ops st bn ti t local ii inp).
Proof.
  intros Fp Hn Hp. unfold input_ops. rewrite Fp. destruct g as [[gbn gti] ptx]. cbn [snd] in Hn. rewrite Hn.
  destruct Hp as [[-> [-> R]]|[-> [Ht R]]].
  - rewrite R. apply in_or_app. left. right. left. reflexivity.
  - rewrite Ht, R. apply in_or_app. right. right. left. reflexivity.
Qed.

(* positions of the transactions of one block *)
Definition at_block (bn : N) (l : list (N * tx)) : list ptx := map (fun p => (bn, fst p, snd p)) l.

(* a transaction with an output paying a registered script can be found by find_prev *)
Definition J5 (st : store) (bn : N) (local : list (txid * (N * tx))) (D : list ptx) : Prop :=
  forall g oi o stype s, In g D -> nth_error (t_outputs (snd g)) (N.to_nat oi) = Some o -> pays_st st stype s o ->
    find_prev st bn local (t_id (snd g)) <> None.

Lemma step_J5 st bn local D ti t : J5 st bn local D -> J5 st bn (a_put N.eqb (t_id t) (ti, t) local) (D ++ [(bn, ti, t)]).
Proof.
  intros H g oi o stype s Hin Hn Hp. rewrite find_prev_local_put.
  destruct (t_id (snd g) =? t_id t) eqn:E; [discriminate|].
  apply in_app_or in Hin. destruct Hin as [Hin|[<-|[]]]; [eapply H; eauto|].
  cbn [snd] in E. rewrite N.eqb_refl in E. discriminate.
Qed.

Section BlockHistory.
  Variables (st : store) (bn : N).

  (* soundness: every history put of the batch belongs to a transaction of the block; an input entry names an input whose
     previous transaction is known (in D or earlier in the block) and pays the entry's script *)
  Lemma block_ops_put_hist_sound : forall (l : list (N * tx)) local D k v,
    J3 st bn local D ->
    In (W_put_hist k v) (block_ops st bn l local) ->
    (exists x, In (W_put_tx v x) (block_ops st bn l local)) /\
    exists ti t, In (ti, t) l /\ v = t_id t /\
      ((exists stype s oi o, k = (stype, s, bn, ti, oi, 1) /\ In (oi, o) (indexed 0 (t_outputs t)) /\ pays_st st stype s o) \/
       (exists stype s ii inp g po, k = (stype, s, bn, ti, ii, 0) /\ In (ii, inp) (indexed 0 (t_inputs t)) /\
          In g (D ++ at_block bn l) /\ t_id (snd g) = fst inp /\
          nth_error (t_outputs (snd g)) (N.to_nat (snd inp)) = Some po /\ pays_st st stype s po)).
  Proof.
    induction l as [|[ti t] l IH]; intros local D k v H3 H; [destruct H|].
    cbn [block_ops] in H. apply in_app_or in H. destruct H as [H|H].
    - unfold tx_ops in H. apply in_app_or in H. destruct H as [H|H]; apply in_flat_map in H; destruct H as [p [Hp H]].
      + destruct (input_ops_put_hist _ _ _ _ _ _ _ _ _ H) as (-> & Hput & stype & s & g & po & -> & Fp & Hn & Hpay).
        split.
        * exists (bn, ti, t). cbn [block_ops]. apply in_or_app. left. unfold tx_ops. apply in_or_app. left.
          apply in_flat_map. exists p. split; assumption.
        * exists ti, t. split; [left; reflexivity|]. split; [reflexivity|]. right.
          exists stype, s, (fst p), (snd p), g, po. split; [reflexivity|]. split; [destruct p; exact Hp|].
          destruct (H3 _ _ Fp) as [HinD Hid]. split; [apply in_or_app; left; exact HinD|]. repeat split; assumption.
      + destruct (output_ops_put_hist _ _ _ _ _ _ _ _ H) as (-> & Hput & stype & s & -> & Hpay).
        split.
        * exists (bn, ti, t). cbn [block_ops]. apply in_or_app. left. unfold tx_ops. apply in_or_app. right.
          apply in_flat_map. exists p. split; assumption.
        * exists ti, t. split; [left; reflexivity|]. split; [reflexivity|]. left.
          exists stype, s, (fst p), (snd p). split; [reflexivity|]. split; [destruct p; exact Hp | exact Hpay].
    - destruct (IH _ (D ++ [(bn, ti, t)]) k v (step_J3 st bn local D ti t H3) H) as [[x Hx] (ti' & t' & Hin & Hv & Hk)].
      split; [exists x; cbn [block_ops]; apply in_or_app; right; exact Hx|].
      exists ti', t'. split; [right; exact Hin|]. split; [exact Hv|].
      destruct Hk as [Hk|(stype & s & ii & inp & g & po & A & B & C & E)]; [left; exact Hk|]. right.
      exists stype, s, ii, inp, g, po. split; [exact A|]. split; [exact B|]. split; [|exact E].
      cbn [at_block map fst snd]. rewrite <- app_assoc in C. exact C.
  Qed.

  (* completeness: an input of a transaction of the block whose previous transaction is known and pays a registered
     script gets its input entry *)
  Lemma block_ops_records_inputs : forall (l : list (N * tx)) local D ti t ii inp g po stype s,
    J3 st bn local D -> J5 st bn local D -> pos_ok (D ++ at_block bn l) ->
    In (ti, t) l -> In (ii, inp) (indexed 0 (t_inputs t)) ->
    In g (D ++ at_block bn l) -> t_id (snd g) = fst inp ->
    (* the previous transaction is not this one or a later one of the block *)
    (forall l1 l2, l = l1 ++ (ti, t) :: l2 -> In g (D ++ at_block bn l1)) ->
    nth_error (t_outputs (snd g)) (N.to_nat (snd inp)) = Some po -> pays_st st stype s po ->
    In (W_put_hist (stype, s, bn, ti, ii, 0) (t_id t)) (block_ops st bn l local).
  Proof.
    induction l as [|[ti0 t0] l IH]; intros local D ti t ii inp g po stype s H3 H5 Hpos Hin Hii Hg Hid Hbefore Hn Hp; [destruct Hin|].
    cbn [block_ops]. apply in_or_app. destruct Hin as [Hin|Hin].
    - inversion Hin; subst ti0 t0. left. unfold tx_ops. apply in_or_app. left. apply in_flat_map. exists (ii, inp).
      split; [exact Hii|]. cbn [fst snd].
      assert (HgD : In g D) by (specialize (Hbefore [] l eq_refl); cbn [at_block map] in Hbefore; rewrite app_nil_r in Hbefore; exact Hbefore).
      destruct (find_prev st bn local (fst inp)) as [g'|] eqn:Fp.
      + destruct (H3 _ _ Fp) as [Hg'D Hid'].
        assert (g' = g).
        { destruct g as [[gb gi] gt], g' as [[gb' gi'] gt']. cbn [snd] in *.
          apply Hpos; [apply in_or_app; left; exact Hg'D | apply in_or_app; left; exact HgD | left; congruence]. }
        subst g'. eapply input_ops_records; eauto.
      + exfalso. rewrite <- Hid in Fp. exact (H5 g _ _ _ _ HgD Hn Hp Fp).
    - right. apply (IH _ (D ++ [(bn, ti0, t0)]) ti t ii inp g po stype s).
      + apply step_J3. exact H3.
      + apply step_J5. exact H5.
      + cbn [at_block map fst snd] in Hpos. rewrite <- app_assoc. exact Hpos.
      + exact Hin.
      + exact Hii.
      + cbn [at_block map fst snd] in Hg. rewrite <- app_assoc. exact Hg.
      + exact Hid.
      + intros l1 l2 Hl. specialize (Hbefore ((ti0, t0) :: l1) l2). cbn [app] in Hbefore. rewrite Hl in Hbefore.
        specialize (Hbefore eq_refl). cbn [at_block map fst snd] in Hbefore. rewrite <- app_assoc. exact Hbefore.
      + exact Hn.
      + exact Hp.
  Qed.

  (* all history puts of one key in the batch carry the same value *)
  Lemma block_ops_put_hist_functional : forall (l : list (N * tx)) local D k v v',
    J3 st bn local D -> NoDup (map fst l) ->
    In (W_put_hist k v) (block_ops st bn l local) -> In (W_put_hist k v') (block_ops st bn l local) -> v = v'.
  Proof.
    intros l local D k v v' H3 Hnd H1 H2.
    destruct (block_ops_put_hist_sound l local D k v H3 H1) as [_ (ti & t & Hin & -> & Hk)].
    destruct (block_ops_put_hist_sound l local D k v' H3 H2) as [_ (ti' & t' & Hin' & -> & Hk')].
    assert (ti = ti').
    { destruct Hk as [(? & ? & ? & ? & -> & _)|(? & ? & ? & ? & ? & ? & -> & _)];
      destruct Hk' as [(? & ? & ? & ? & E & _)|(? & ? & ? & ? & ? & ? & E & _)]; inversion E; reflexivity. }
    subst ti'. f_equal.
    clear - Hnd Hin Hin'. induction l as [|[a b] l IH]; [destruct Hin|]. cbn [map fst] in Hnd. inversion Hnd as [|? ? Hno Hnd']; subst.
    destruct Hin as [Hin|Hin], Hin' as [Hin'|Hin'].
    - congruence.
    - inversion Hin; subst. exfalso. apply Hno. apply in_map_iff. exists (ti, t'). split; [reflexivity | exact Hin'].
    - inversion Hin'; subst. exfalso. apply Hno. apply in_map_iff. exists (ti, t). split; [reflexivity | exact Hin].
    - apply IH; assumption.
  Qed.
End BlockHistory.

(* ---- history lists under a batch without deletions ---- *)
Lemma hist_after_puts ops : forall h k v,
  In (k, v) (fold_left hist_step ops h) -> In (k, v) h \/ In (W_put_hist k v) ops.
Proof.
  induction ops as [|op ops IH]; intros h k v H; [left; exact H|].
  cbn [fold_left] in H. destruct (IH _ _ _ H) as [H1|H1]; [|right; right; exact H1].
  destruct op; cbn [hist_step] in H1; try (left; exact H1).
  - apply (a_put_in hkey_eqb hkey_eqb_spec) in H1. destruct H1 as [[-> ->]|[H1 _]]; [right; left; reflexivity | left; exact H1].
  - apply (a_del_in hkey_eqb hkey_eqb_spec) in H1. left. tauto.
Qed.

Lemma hist_value_survives ops : forall h k v,
  (forall k', ~ In (W_del_hist k') ops) -> (forall v', In (W_put_hist k v') ops -> v' = v) ->
  In (k, v) h \/ In (W_put_hist k v) ops -> In (k, v) (fold_left hist_step ops h).
Proof.
  induction ops as [|op ops IH]; intros h k v Hnd Hf H.
  - destruct H as [H|[]]. exact H.
  - cbn [fold_left]. apply IH.
    + intros k' Hin. apply (Hnd k'). right. exact Hin.
    + intros v' Hin. apply Hf. right. exact Hin.
    + destruct H as [H|[H|H]].
      * destruct op; cbn [hist_step]; try (left; exact H).
        -- left. apply (a_put_in hkey_eqb hkey_eqb_spec). destruct (hkey_eqb k k0) eqn:E.
           ++ apply hkey_eqb_spec in E. subst k0. left. split; [reflexivity|]. symmetry. apply Hf. left. reflexivity.
           ++ right. split; [exact H|]. intros ->. assert (hkey_eqb k0 k0 = true) by (apply hkey_eqb_spec; reflexivity). congruence.
        -- exfalso. apply (Hnd k0). left. reflexivity.
      * subst op. cbn [hist_step]. left. apply (a_put_in hkey_eqb hkey_eqb_spec). left. split; reflexivity.
      * right. exact H.
Qed.

(* ---- the invariant ---- *)
Record HInv (st : store) (D : list ptx) : Prop := mkHInv {
  h_out : forall g oi o stype s, In g D -> nth_error (t_outputs (snd g)) (N.to_nat oi) = Some o -> pays_st st stype s o ->
            exists v, In ((stype, s, fst (fst g), snd (fst g), oi, 1), v) (history st);
  h_in_sound : forall stype s bn ti ii v, In ((stype, s, bn, ti, ii, 0), v) (history st) ->
            exists tr inp g po, In (bn, ti, tr) D /\ t_id tr = v /\ nth_error (t_inputs tr) (N.to_nat ii) = Some inp /\
              In g D /\ t_id (snd g) = fst inp /\ nth_error (t_outputs (snd g)) (N.to_nat (snd inp)) = Some po /\ pays_st st stype s po;
  h_in_complete : forall bn ti tr ii inp g po stype s,
            In (bn, ti, tr) D -> nth_error (t_inputs tr) (N.to_nat ii) = Some inp ->
            In g D -> t_id (snd g) = fst inp -> nth_error (t_outputs (snd g)) (N.to_nat (snd inp)) = Some po -> pays_st st stype s po ->
            In ((stype, s, bn, ti, ii, 0), t_id tr) (history st);
  h_txs : forall g oi o stype s, In g D -> nth_error (t_outputs (snd g)) (N.to_nat oi) = Some o -> pays_st st stype s o ->
            a_get N.eqb (t_id (snd g)) (txs st) <> None;
  h_txs_hist : forall k v, In (k, v) (history st) -> a_get N.eqb v (txs st) <> None;
  h_io : forall stype s bn ti ci io v, In ((stype, s, bn, ti, ci, io), v) (history st) -> io = 0 \/ io = 1
}.

Lemma fresh_hinv regs : HInv (fresh_store regs) [].
Proof. constructor; cbn; intros; try contradiction. Qed.

Lemma indexed_NoDup {A} (l : list A) : forall i, NoDup (map fst (indexed i l)).
Proof.
  induction l as [|a l IH]; intros i; [constructor|]. cbn [indexed map fst]. constructor; [|apply IH].
  intros H. apply in_map_iff in H. destruct H as [[j b] [Hj Hin]]. cbn [fst] in Hj. subst j.
  apply indexed_in in Hin. destruct Hin as [_ Hle]. lia.
Qed.

Lemma indexed_of_nth {A} (l : list A) n a : nth_error l (N.to_nat n) = Some a -> In (n, a) (indexed 0 l).
Proof. intros H. pose proof (indexed_nth l 0 _ _ H) as H'. rewrite N.add_0_l, N2Nat.id in H'. exact H'. Qed.

Lemma nth_of_indexed {A} (l : list A) n a : In (n, a) (indexed 0 l) -> nth_error l (N.to_nat n) = Some a.
Proof. intros H. apply indexed_in in H. destruct H as [H _]. rewrite N.sub_0_r in H. exact H. Qed.

Lemma indexed_split {A} (l : list A) : forall i j a, In (j, a) (indexed i l) ->
  exists l1 l2, indexed i l = l1 ++ (j, a) :: l2.
Proof. intros i j a H. apply in_split in H. exact H. Qed.

(* one block *)
Lemma block_step_H regs st E D b :
  Inv regs st E D -> HInv st D -> pos_ok (D ++ block_txs b) -> refs_backwards (D ++ block_txs b) ->
  HInv (filter_block st b) (D ++ block_txs b).
Proof.
  intros HI HH Hpos Href. pose proof HI as [Hs Hc H2 H3 H4]. destruct HH as [Ho Hsnd Hcmp Htx Hth Hio].
  set (bn := b_number b). set (l := indexed 0 (b_txs b)).
  assert (Hbt : block_txs b = at_block bn l) by reflexivity.
  set (ops := block_ops st bn l []).
  assert (Hhist : history (filter_block st b) = fold_left hist_step ops (history st)) by apply filter_block_history.
  destruct (filter_block_ops_form st b) as [hdr [Hfb Hhdr]]. fold bn l ops in Hfb.
  assert (Hnoset : no_set_script (ops ++ hdr)).
  { intros s ty n Hin. apply in_app_or in Hin. destruct Hin as [Hin|Hin]; [exact (block_ops_no_set_script _ _ _ _ _ _ _ Hin)|].
    destruct Hhdr as [->| ->]; [destruct Hin | destruct Hin as [Hin|[]]; discriminate]. }
  assert (Hreg : registered (filter_block st b) = registered st).
  { rewrite !registered_reg_of. rewrite Hfb, commit_scripts by exact Hnoset. reflexivity. }
  assert (Hpays : forall stype s o, pays_st (filter_block st b) stype s o <-> pays_st st stype s o).
  { intros. unfold pays_st. rewrite Hreg. reflexivity. }
  assert (Htxs : txs (filter_block st b) = fold_left txs_step (ops ++ hdr) (txs st)) by (rewrite Hfb; apply commit_txs).
  assert (J3i : J3 st bn [] D).
  { intros tid g Hg. unfold find_prev in Hg. cbn [a_get] in Hg. exact (H3 tid g Hg). }
  assert (J5i : J5 st bn [] D).
  { intros g oi o stype s Hin Hn Hp. unfold find_prev. cbn [a_get]. exact (Htx g oi o stype s Hin Hn Hp). }
  assert (Hnd : forall k', ~ In (W_del_hist k') ops) by (intros k'; apply block_ops_no_del_hist).
  assert (Hndl : NoDup (map fst l)) by apply indexed_NoDup.
  assert (Hputtx : forall tid x, In (W_put_tx tid x) ops -> a_get N.eqb tid (txs (filter_block st b)) <> None).
  { intros tid x Hin. rewrite Htxs. apply in_split in Hin. destruct Hin as [o1 [o2 Hin]]. rewrite Hin, <- app_assoc. cbn [app].
    apply txs_put_present. }
  assert (Hstay : forall tid, a_get N.eqb tid (txs st) <> None -> a_get N.eqb tid (txs (filter_block st b)) <> None).
  { intros tid Hin. rewrite Htxs. apply txs_stay. exact Hin. }
  (* a transaction of D at position (bn, ti) is the block's transaction there *)
  assert (Hsame : forall ti tr t, In (bn, ti, tr) D -> In (ti, t) l -> tr = t).
  { intros ti tr t HD Hl. assert (E0 : (bn, ti, tr) = (bn, ti, t)).
    { apply Hpos; [apply in_or_app; left; exact HD | apply in_or_app; right; rewrite Hbt; apply in_map_iff; exists (ti, t); split; [reflexivity | exact Hl] | right; split; reflexivity]. }
    inversion E0. reflexivity. }
  constructor.
  - (* outputs *)
    intros g oi o stype s Hin Hn Hp. apply Hpays in Hp. apply in_app_or in Hin. destruct Hin as [Hin|Hin].
    + destruct (Ho g oi o stype s Hin Hn Hp) as [v Hv]. eapply filter_block_keeps_history; eauto.
    + rewrite Hbt in Hin. apply in_map_iff in Hin. destruct Hin as [[ti t] [<- Hin]]. cbn [fst snd] in *.
      rewrite Hhist. apply hist_key_survives; [exact Hnd|]. right. exists (t_id t).
      eapply block_ops_contains_outputs; [exact Hin | apply indexed_of_nth; exact Hn |].
      apply (pays_dec_ops st stype s o Hp bn ti t oi).
  - (* input entries are sound *)
    intros stype s bn' ti ii v Hin. rewrite Hhist in Hin. apply hist_after_puts in Hin. destruct Hin as [Hin|Hin].
    + destruct (Hsnd _ _ _ _ _ _ Hin) as (tr & inp & g & po & A & B & C & F & G & I & J).
      exists tr, inp, g, po. repeat split; try assumption; try (apply in_or_app; left; assumption). apply Hpays. exact J.
    + destruct (block_ops_put_hist_sound st bn l [] D _ _ J3i Hin) as [_ (ti' & t & Hl & -> & Hk)].
      destruct Hk as [(? & ? & ? & ? & E0 & _)|(stype' & s' & ii' & inp & g & po & E0 & Hii & Hg & Hid & Hn & Hp)]; [inversion E0|].
      inversion E0; subst stype' s' bn' ti' ii'. exists t, inp, g, po.
      split; [apply in_or_app; right; rewrite Hbt; apply in_map_iff; exists (ti, t); split; [reflexivity | exact Hl]|].
      split; [reflexivity|]. split; [apply nth_of_indexed; exact Hii|]. split; [rewrite Hbt; exact Hg|].
      split; [exact Hid|]. split; [exact Hn|]. apply Hpays. exact Hp.
  - (* input entries are complete *)
    intros bn' ti tr ii inp g po stype s Hin Hii Hg Hid Hn Hp. apply Hpays in Hp. rewrite Hhist.
    apply in_app_or in Hin. destruct Hin as [Hin|Hin].
    + (* an old transaction: its previous transaction is old as well *)
      assert (HgD : In g D).
      { apply in_app_or in Hg. destruct Hg as [Hg|Hg]; [exact Hg|]. exfalso.
        apply in_split in Hin. destruct Hin as [d1 [d2 Hd]].
        refine (Href d1 (bn', ti, tr) (d2 ++ block_txs b) _ inp _ g _ Hid);
          [rewrite Hd, <- app_assoc; reflexivity | eapply nth_error_In; exact Hii | right; apply in_or_app; right; exact Hg]. }
      apply hist_value_survives; [exact Hnd | | left; eapply Hcmp; eauto].
      intros v' Hput. destruct (block_ops_put_hist_sound st bn l [] D _ _ J3i Hput) as [_ (ti' & t & Hl & -> & Hk)].
      destruct Hk as [(? & ? & ? & ? & E0 & _)|(? & ? & ? & ? & ? & ? & E0 & _)]; inversion E0; subst.
      rewrite (Hsame ti' tr t Hin Hl). reflexivity.
    + rewrite Hbt in Hin. apply in_map_iff in Hin. destruct Hin as [[ti' t] [E0 Hl]]. cbn [fst snd] in E0. inversion E0; subst bn' ti' t. clear E0.
      assert (Hrec : In (W_put_hist (stype, s, bn, ti, ii, 0) (t_id tr)) ops).
      { unfold ops. apply (block_ops_records_inputs st bn l [] D ti tr ii inp g po stype s J3i J5i).
        - rewrite <- Hbt. exact Hpos.
        - exact Hl.
        - apply indexed_of_nth. exact Hii.
        - rewrite <- Hbt. exact Hg.
        - exact Hid.
        - intros l1 l2 Hl12. apply in_app_or in Hg. destruct Hg as [Hg|Hg]; [apply in_or_app; left; exact Hg|].
          rewrite Hbt, Hl12 in Hg. unfold at_block in Hg. rewrite map_app in Hg. apply in_app_or in Hg.
          destruct Hg as [Hg|Hg]; [apply in_or_app; right; exact Hg|]. exfalso.
          refine (Href (D ++ at_block bn l1) (bn, ti, tr) (at_block bn l2) _ inp _ g Hg Hid);
            [rewrite Hbt, Hl12; unfold at_block; rewrite map_app, <- app_assoc; reflexivity | eapply nth_error_In; exact Hii].
        - exact Hn.
        - exact Hp. }
      apply hist_value_survives; [exact Hnd | | right; exact Hrec].
      intros v' Hput. exact (block_ops_put_hist_functional st bn l [] D _ _ _ J3i Hndl Hput Hrec).
  - (* transactions paying a registered script are stored *)
    intros g oi o stype s Hin Hn Hp. apply Hpays in Hp. apply in_app_or in Hin. destruct Hin as [Hin|Hin].
    + apply Hstay. eapply Htx; eauto.
    + rewrite Hbt in Hin. apply in_map_iff in Hin. destruct Hin as [[ti t] [<- Hin]]. cbn [fst snd] in *.
      apply (Hputtx (t_id t) (bn, ti, t)).
      eapply block_ops_contains_outputs; [exact Hin | apply indexed_of_nth; exact Hn |].
      apply (pays_dec_ops st stype s o Hp bn ti t oi).
  - (* the transaction of every history entry is stored *)
    intros k v Hin. rewrite Hhist in Hin. apply hist_after_puts in Hin. destruct Hin as [Hin|Hin].
    + apply Hstay. eapply Hth; eauto.
    + destruct (block_ops_put_hist_sound st bn l [] D _ _ J3i Hin) as [[x Hx] _]. eapply Hputtx; eauto.
  - intros stype s bn' ti ci io v Hin. rewrite Hhist in Hin. apply hist_after_puts in Hin. destruct Hin as [Hin|Hin].
    + eapply Hio; eauto.
    + destruct (block_ops_put_hist_sound st bn l [] D _ _ J3i Hin) as [_ (ti' & t & Hl & _ & Hk)].
      destruct Hk as [(? & ? & ? & ? & E0 & _)|(? & ? & ? & ? & ? & ? & E0 & _)]; inversion E0; auto.
Qed.

Lemma refs_backwards_prefix (L1 L2 : list ptx) : refs_backwards (L1 ++ L2) -> refs_backwards L1.
Proof.
  intros H l1 p l2 HL inp Hin q Hq. apply (H l1 p (l2 ++ L2)); [rewrite HL, <- app_assoc; reflexivity | exact Hin |].
  destruct Hq as [Hq|Hq]; [left; exact Hq | right; apply in_or_app; left; exact Hq].
Qed.

Lemma pos_ok_prefix (L1 L2 : list ptx) : pos_ok (L1 ++ L2) -> pos_ok L1.
Proof. intros H b1 i1 t1 b2 i2 t2 A B. apply H; apply in_or_app; left; assumption. Qed.

(* the chain: both invariants hold after indexing *)
Lemma chain_invariants regs : forall bs st E D,
  Inv regs st E D -> HInv st D -> pos_ok (D ++ chain_txs bs) -> refs_backwards (D ++ chain_txs bs) ->
  Inv regs (fold_left filter_block bs st) (fold_left (spec_block (reg_of regs)) bs E) (D ++ chain_txs bs) /\
  HInv (fold_left filter_block bs st) (D ++ chain_txs bs).
Proof.
  induction bs as [|b bs IH]; intros st E D HI HH Hpos Href.
  - cbn [fold_left chain_txs flat_map]. rewrite app_nil_r. split; assumption.
  - cbn [fold_left chain_txs flat_map] in *. rewrite app_assoc in *.
    apply IH; [| | exact Hpos | exact Href].
    + apply block_step; [exact HI | eapply pos_ok_prefix; exact Hpos].
    + eapply block_step_H; [exact HI | exact HH | eapply pos_ok_prefix; exact Hpos | eapply refs_backwards_prefix; exact Href].
Qed.
