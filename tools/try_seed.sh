#!/bin/sh
# usage: tools/try_seed.sh <seed dir with patch.diff> <property id>...
# applies the patch to /repo, runs the quick checks, reverts the patch
d=$1; shift
cd /repo || exit 2
git diff --quiet || { echo "/repo is dirty"; exit 2; }
git apply "$d/patch.diff" || { echo "patch does not apply"; exit 2; }
for p in "$@"; do
  (cd /verif && ./vp check "$p" 2>&1 | grep -E "VIOLATION|KNOWN|tier=" | cut -c1-300 | head -8; echo "exit=$?")
done
git checkout -- . && git clean -fdq src
