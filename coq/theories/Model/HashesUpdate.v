(* Model of the BlockFilterHashes handler: src/protocols/filter/components/block_filter_hashes_process.rs (execute)
   and LatestBlockFilterHashes::update_latest_block_filter_hashes (src/protocols/light_client/peers.rs), as repaired
   (start + len is a checked addition; a message shorter than the stored overlap appends nothing; hashes of a cached
   range are only accepted when they reach - and match - the upper check point).
   Filter hashes are numbers (the harness interns the 32-byte values).  Result codes: 0 = no ban (OK or Ignore),
   481 = BlockFilterHashesIsEmpty, 482 = BlockFilterHashesIsUnexpected; every slice / index of the code that is not
   guarded by an explicit check is a Panic site here. *)
From LC Require Export U.
From Coq Require Export List Bool.
Export ListNotations.
Open Scope N_scope.
Open Scope bool_scope.

Definition C_HASHES_EMPTY : N := 481.
Definition C_HASHES_UNEXPECTED : N := 482.
Definition S_FH_CHECK_POINT : N := 950.   (* block_filter_hashes[index] for the finalized check point *)
Definition S_FH_PARENT : N := 951.        (* self.inner[index] for the parent hash *)
Definition S_FH_CACHED_PARENT : N := 952. (* cached_hashes[index] *)
Definition S_FH_NEXT_CP : N := 953.       (* block_filter_hashes[index] for the next cached check point *)
Definition S_FH_OFFSET : N := 954.        (* cached_hashes[index_offset..] *)

Definition len {A} (l : list A) : N := N.of_nat (length l).
Definition nthN {A} (l : list A) (i : N) : option A := nth_error l (N.to_nat i).
Definition dropN {A} (i : N) (l : list A) : list A := skipn (N.to_nat i) l.
Definition takeN {A} (i : N) (l : list A) : list A := firstn (N.to_nat i) l.

(* zip-compare: the first position where both lists have an element and the elements differ *)
Fixpoint zip_differs (a b : list N) : bool :=
  match a, b with
  | x :: a', y :: b' => if x =? y then zip_differs a' b' else true
  | _, _ => false
  end.

(* ---- per peer: the hashes after the last finalized check point ---- *)
Record lat := mkLat { l_cp : N; l_inner : list N }.

(* inl code: nothing changes; inr (new inner, next start number to ask this peer for) *)
Definition update_latest (last_proved fin_number fcp start parent : N) (hs : list N) (l : lat)
  : res (N + (list N * option N)) :=
  match hs with
  | [] => Ok (inl C_HASHES_EMPTY)
  | _ =>
    if last_proved <=? fin_number then Ok (inl 0) else
    if negb (fin_number =? l_cp l) then Ok (inl 0) else
    if U64MAX <? start + (len hs - 1) then Ok (inl 0) else
    let end0 := start + (len hs - 1) in
    if end0 <=? fin_number then Ok (inl 0) else
    if last_proved <? start then Ok (inl 0) else
    if l_cp l + len (l_inner l) + 1 <? start then Ok (inl 0) else
    let hs1 := if last_proved <? end0 then takeN (len hs - (end0 - last_proved)) hs else hs in
    let end1 := if last_proved <? end0 then last_proved else end0 in
    let* idx :=
      if start <=? fin_number then
        match nthN hs1 (fin_number - start) with
        | None => Panic S_FH_CHECK_POINT
        | Some h => if h =? fcp then Ok (inr (0, fin_number - start + 1)) else Ok (inl C_HASHES_UNEXPECTED)
        end
      else if start =? fin_number + 1 then
        if parent =? fcp then Ok (inr (0, 0)) else Ok (inl C_HASHES_UNEXPECTED)
      else
        match nthN (l_inner l) (start - fin_number - 2) with
        | None => Panic S_FH_PARENT
        | Some h => if h =? parent then Ok (inr (start - fin_number - 1, 0)) else Ok (inl C_HASHES_UNEXPECTED)
        end in
    match idx with
    | inl c => Ok (inl c)
    | inr (i_old, i_new) =>
        let old_tail := dropN i_old (l_inner l) in
        if zip_differs old_tail (dropN i_new hs1) then Ok (inl 0) else
        (* a message that ends before the stored hashes do appends nothing (the guard added by the repair) *)
        let inner' := l_inner l ++ dropN (i_new + len old_tail) hs1 in
        Ok (inr (inner', if end1 <? last_proved then Some (end1 + 1) else None))
    end
  end.

(* ---- the hashes between two finalized check points (one list for the client) ---- *)
(* inl code: nothing changes; inr (new cached, Some n = ask for more from n / None = enough) *)
Definition update_cached (cn nn ccp ncp : N) (cached : list N) (start parent : N) (hs : list N)
  : res (N + (list N * option N)) :=
  if cn + len cached + 1 <? start then Ok (inl 0) else
  let* parent_ok :=
    if start =? cn + 1 then Ok (if ccp =? parent then inr tt else inl C_HASHES_UNEXPECTED)
    else match nthN cached (start - cn - 2) with
         | None => Panic S_FH_CACHED_PARENT
         | Some h => Ok (if h =? parent then inr tt else inl 0)
         end in
  match parent_ok with
  | inl c => Ok (inl c)
  | inr _ =>
    let end_number := start + len hs - 1 in
    (* hashes between two check points can only be verified by the upper one: nothing is cached before they reach it
       (repair of the unanchored cached hashes) *)
    if end_number <? nn then Ok (inl 0) else
    let* cp_ok :=
      match nthN hs (len hs - (end_number - nn) - 1) with
      | None => Panic S_FH_NEXT_CP
      | Some h => Ok (if ncp =? h then inr tt else inl C_HASHES_UNEXPECTED)
      end in
    match cp_ok with
    | inl c => Ok (inl c)
    | inr _ =>
      let offset := start - (cn + 1) in
      if len cached <? offset then Panic S_FH_OFFSET else
      let tail := dropN offset cached in
      if zip_differs tail hs then Ok (inl 0) else
      let fresh := dropN (len tail) (takeN (len hs - (end_number - nn)) hs) in
      Ok (inr (cached ++ fresh, None))
    end
  end.

(* ---- the handler ---- *)
Record fh_world := mkFW {
  w_prove : option N;        (* the sender's proven header number; None = no prove state *)
  w_interval : N;
  w_fi : N; w_fcp : N;       (* last finalized check point: index and value *)
  w_ci : N; w_ccp : N; w_ncp : N; w_cached : list N;   (* cached index, the two check points around the cached range *)
  w_lat : lat                (* the sender's latest hashes *)
}.

Record fh_out := mkFO { o_code : N; o_lat : list N; o_cached : list N; o_next : option N }.

Definition process (w : fh_world) (start parent : N) (hs : list N) : res fh_out :=
  let same := mkFO 0 (l_inner (w_lat w)) (w_cached w) None in
  match w_prove w with
  | None => Ok same
  | Some proved =>
    let fin_number := w_fi w * w_interval w in
    let cn := w_ci w * w_interval w in
    let nn := (w_ci w + 1) * w_interval w in
    if (start <=? fin_number) && (cn <? start) && (start <=? nn) then
      let* r := update_cached cn nn (w_ccp w) (w_ncp w) (w_cached w) start parent hs in
      match r with
      | inl c => Ok (mkFO c (l_inner (w_lat w)) (w_cached w) None)
      | inr (cached', next) => Ok (mkFO 0 (l_inner (w_lat w)) cached' next)
      end
    else if fin_number <? start then
      let* r := update_latest proved fin_number (w_fcp w) start parent hs (w_lat w) in
      match r with
      | inl c => Ok (mkFO c (l_inner (w_lat w)) (w_cached w) None)
      | inr (inner', next) => Ok (mkFO 0 inner' (w_cached w) next)
      end
    else Ok same
  end.
