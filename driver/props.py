"""Per-property configuration of the checks."""

TRUSTED_BASE_COMMON = [
    "Coq 8.16.1 kernel (coqc); vm_compute used for Examples, *_refuted witnesses and for running the model; no native_compute",
    "Print Assumptions of every property theorem: 'Closed under the global context' (no axioms); grep for Admitted/admit/Axiom/Parameter/Conjecture on every run",
    "hand-written Gallina model tied to the code by the correspondence check (Rust harness compiled into the crate's test build with --features verif, /verif/harness; Python driver /verif/driver)",
    "external crates are oracles, not verified: ckb-types (compact_to_difficulty, molecule), ckb-pow, ckb-merkle-mountain-range, golomb-coded-set, ckb-verification/ckb-script, RocksDB, numext U256",
]

PROPS = {
    "C14": {
        "op": "c14",
        "run_module": "RunC14",
        "n": {"quick": 300, "thorough": 6000},
        "rule": "cases = fixed corpus witnesses + random verify_tau calls + random trend-method calls + generated tau-legal "
                "epoch histories with total/compact mutations + fully random (ill-formed) inputs + exhaustive small grid "
                "(start epoch difficulty <= 8, end <= 16, 2..4 switches (5 in thorough), min/mid/max reachable totals from a DP oracle); "
                "distinct = distinct model input expression; all are non-trivial (every case calls the function under test)",
        "assumptions": [
            "compact_to_difficulty (ckb-types) is an oracle: the model receives the block difficulty computed by the library",
            "tau > 0 (the constant TAU = 2 is the only value the handlers pass)",
        ],
        "trusted_base": ["modelled: verify_tau, verify_total_difficulty, EpochDifficultyTrend::* (send_last_state_proof.rs 353-660, 951-1076)"],
    },
}
