(* C10 for the BlockFilters message: the checked model of BlockFiltersProcess::execute (Model/FiltersChecked.v)
   never unwinds when the client's own state is within range, whatever the message, and there it computes exactly what
   the unbounded model (Model/Filters.v, subject of the C06 theorems) computes. *)
From Coq Require Import NArith ZArith List Bool Lia ZifyBool ZifyN.
From LC Require Import Res U Filters FiltersChecked.
Import ListNotations.
Open Scope N_scope.
Ltac Zify.zify_post_hook ::= Z.div_mod_to_equations.

(* what the client's own state satisfies: a positive check point interval, block numbers and lengths far below 2^64,
   check point indices that fit their u32, and the stored check point in front of the cached range
   (Storage::update_check_points writes every index up to the finalized one; the cached index is below it whenever
   the cached branch is taken) *)
Record in_range (w : fworld) (m : bf_msg) : Prop := mkRange {
  r_interval : 0 < fw_interval w;
  r_min : fw_min w + lenN (m_filters m) + 2 <= U32MAX * fw_interval w;
  r_small : U32MAX * fw_interval w + lenN (fw_latest w) + 2 <= U64MAX;
  r_fin : fw_fin_index w <= U32MAX;
  r_cached : fw_cached_index w < U32MAX;
  r_cp : fw_cached_index w < fw_fin_index w -> fw_cached_cp w <> None
}.

Lemma add64_ok site a b : a + b <= U64MAX -> add64 site a b = Ok (a + b).
Proof. intros H. unfold add64, add_chk. destruct (a + b <=? U64MAX) eqn:E; [reflexivity | lia]. Qed.
Lemma mul64_ok site a b : a * b <= U64MAX -> mul64_at site a b = Ok (a * b).
Proof. intros H. unfold mul64_at, mul64, mul_chk. destruct (a * b <=? U64MAX) eqn:E; [reflexivity | lia]. Qed.
Lemma add32_ok site a b : a + b <= U32MAX -> add32 site a b = Ok (a + b).
Proof. intros H. unfold add32, add_chk. destruct (a + b <=? U32MAX) eqn:E; [reflexivity | lia]. Qed.
Lemma sub_ok site a b : b <= a -> sub_chk site a b = Ok (a - b).
Proof. intros H. unfold sub_chk. destruct (b <=? a) eqn:E; [reflexivity | lia]. Qed.

Lemma mul_le_bound i x : x <= U32MAX -> i * x <= U32MAX * i.
Proof. intros H. nia. Qed.

Lemma cached_index_at_ok w n :
  0 < fw_interval w -> n + 1 <= U32MAX * fw_interval w -> U32MAX * fw_interval w <= U64MAX ->
  cached_index_at w n = Ok (n / fw_interval w).
Proof.
  intros Hi Hn Hs. unfold cached_index_at. rewrite add64_ok by lia. cbn [bind].
  destruct (fw_interval w =? 0) eqn:E; [lia|].
  replace (n + 1 - 1) with n by lia. f_equal. apply N.mod_small.
  assert (n / fw_interval w <= U32MAX).
  { apply N.div_le_upper_bound; [lia|]. lia. }
  unfold U32MAX in *. lia.
Qed.

Lemma expected_hashes_chk_eq w m :
  in_range w m -> fw_min w + 1 = m_start m ->
  expected_hashes_chk w (m_start m) = expected_hashes w (m_start m) /\
  is_panic (expected_hashes w (m_start m)) = false.
Proof.
  intros [Hi Hmin Hsmall Hfin Hc Hcp] Hstart.
  assert (Hfn : fw_interval w * fw_fin_index w <= U32MAX * fw_interval w) by (apply mul_le_bound; exact Hfin).
  assert (Hcn : fw_interval w * fw_cached_index w <= U32MAX * fw_interval w) by (apply mul_le_bound; lia).
  assert (Hnn : fw_interval w * (fw_cached_index w + 1) <= U32MAX * fw_interval w) by (apply mul_le_bound; lia).
  unfold expected_hashes_chk, expected_hashes.
  rewrite mul64_ok by lia. cbn [bind].
  destruct (m_start m <=? fw_interval w * fw_fin_index w) eqn:E1.
  - rewrite mul64_ok by lia. cbn [bind]. rewrite add32_ok by lia. cbn [bind]. rewrite mul64_ok by lia. cbn [bind].
    destruct ((m_start m <=? fw_interval w * fw_cached_index w) || (fw_interval w * (fw_cached_index w + 1) <? m_start m)) eqn:E2;
      [split; reflexivity|].
    destruct (fw_cached w) as [|c0 ctl] eqn:Ec; [split; reflexivity|].
    rewrite add64_ok by lia. cbn [bind].
    destruct (m_start m =? fw_interval w * fw_cached_index w + 1) eqn:E3.
    + assert (Hlt : fw_cached_index w < fw_fin_index w) by nia.
      destruct (fw_cached_cp w) as [cp|]; [split; reflexivity | exfalso; apply (Hcp Hlt); reflexivity].
    + apply orb_false_iff in E2. destruct E2 as [E2 E2'].
      rewrite sub_ok by lia. cbn [bind]. rewrite sub_ok by lia. cbn [bind].
      replace (m_start m - fw_interval w * fw_cached_index w - 2) with (m_start m - fw_interval w * fw_cached_index w - 2) by reflexivity.
      destruct (nth_error (c0 :: ctl) (N.to_nat (m_start m - fw_interval w * fw_cached_index w - 2))); split; reflexivity.
  - rewrite add64_ok by lia. cbn [bind].
    destruct (m_start m =? fw_interval w * fw_fin_index w + 1) eqn:E3; [split; reflexivity|].
    rewrite sub_ok by lia. cbn [bind]. rewrite sub_ok by lia. cbn [bind].
    destruct (nth_error (fw_latest w) (N.to_nat (m_start m - fw_interval w * fw_fin_index w - 2))); split; reflexivity.
Qed.

Lemma could_request_more_chk_eq w ci cl n :
  0 < fw_interval w -> n + 1 <= U32MAX * fw_interval w -> U32MAX * fw_interval w + lenN (fw_latest w) + 2 <= U64MAX ->
  fw_fin_index w <= U32MAX ->
  could_request_more_chk w ci cl n = Ok (could_request_more w ci cl n).
Proof.
  intros Hi Hn Hs Hf. unfold could_request_more_chk, could_request_more.
  rewrite cached_index_at_ok by lia. cbn [bind].
  destruct (fw_fin_index w <=? n / fw_interval w); [|reflexivity].
  assert (Hfn : fw_interval w * fw_fin_index w <= U32MAX * fw_interval w) by (apply mul_le_bound; exact Hf).
  rewrite mul64_ok by lia. cbn [bind]. rewrite add64_ok by lia. cbn [bind]. rewrite add64_ok by lia. reflexivity.
Qed.

Lemma min_le_length {A} (a : list A) n : N.of_nat (Nat.min (length a) n) <= lenN a.
Proof. unfold lenN. lia. Qed.

(* within range the checked model is the unbounded one *)
Theorem execute_chk_eq w m : in_range w m -> execute_chk w m = execute w m.
Proof.
  intros HR. pose proof HR as [Hi Hmin Hsmall Hfin Hc Hcp].
  unfold execute_chk, execute.
  destruct (fw_scripts w) as [|s0 stl]; [reflexivity|].
  destruct (fw_peer w) as [[tip|]|]; try reflexivity.
  rewrite add64_ok by lia. cbn [bind].
  destruct (negb (fw_min w + 1 =? m_start m)) eqn:E0; [reflexivity|].
  destruct (negb (lenN (m_filters m) =? lenN (m_hashes m))); [reflexivity|].
  destruct (lenN (m_filters m) =? 0); [reflexivity|].
  assert (Hstart : fw_min w + 1 = m_start m) by lia.
  destruct (expected_hashes_chk_eq w m HR Hstart) as [-> _].
  destruct (expected_hashes w (m_start m)) as [[[parent expected]|]| |]; cbn [bind]; try reflexivity.
  set (limit := Nat.min (length (m_filters m)) (length expected)).
  destruct (chain_check (fw_htable w) parent (firstn limit (m_filters m)) expected); [|reflexivity].
  assert (Hl : N.of_nat limit <= lenN (m_filters m)) by apply min_le_length.
  rewrite add64_ok by lia. cbn [bind]. rewrite sub_ok by lia. cbn [bind]. rewrite add64_ok by lia. cbn [bind].
  rewrite cached_index_at_ok by lia. cbn [bind].
  rewrite could_request_more_chk_eq by lia. cbn [bind].
  destruct (could_request_more w _ _ _); cbn [bind]; [rewrite add64_ok by lia|]; reflexivity.
Qed.

Lemma execute_no_panic w m : in_range w m -> is_panic (execute w m) = false.
Proof.
  intros HR. unfold execute.
  destruct (fw_scripts w) as [|s0 stl]; [reflexivity|].
  destruct (fw_peer w) as [[tip|]|]; try reflexivity.
  destruct (negb (fw_min w + 1 =? m_start m)) eqn:E0; [reflexivity|].
  destruct (negb (lenN (m_filters m) =? lenN (m_hashes m))); [reflexivity|].
  destruct (lenN (m_filters m) =? 0); [reflexivity|].
  assert (Hstart : fw_min w + 1 = m_start m) by lia.
  destruct (expected_hashes_chk_eq w m HR Hstart) as [_ Hp].
  destruct (expected_hashes w (m_start m)) as [[[parent expected]|]| |]; cbn [bind]; try reflexivity; [|discriminate Hp].
  destruct (chain_check _ _ _ _); reflexivity.
Qed.

(* whatever BlockFilters message arrives, in whatever state the peer is, the handler returns *)
Theorem block_filters_never_panics w m : in_range w m -> is_panic (execute_chk w m) = false.
Proof. intros HR. rewrite execute_chk_eq by exact HR. apply execute_no_panic. exact HR. Qed.

(* the range hypothesis is about the client's own state only: for such a state EVERY message length up to the
   bound is fine, in particular every start number, filter list and hash list a peer may put into the message *)
Lemma in_range_any_message w m m' :
  in_range w m -> lenN (m_filters m') <= lenN (m_filters m) -> in_range w m'.
Proof. intros [A B C D E F] Hl. constructor; try assumption. lia. Qed.

(* and outside the range the unwinding is real: a filter progress of u64::MAX makes the first addition overflow *)
Example block_filters_panics_outside_range :
  execute_chk (mkFW [(1, 0)] (Some (Some 7)) U64MAX false true 2000 0 0 0 [] None [] [] []) (mkMsg 0 [] []) = Panic S_BF_MIN1.
Proof. vm_compute. reflexivity. Qed.
