(* C03 — Script index equals the chain: no phantom or spent cells, no missing activity.
   Model: Model/Store.v — the RocksDB key spaces as association lists, write batches applied in order.
   Specification: Model/IndexSpec.v — the abstract cell index, a map updated transaction by transaction.

   End to end (every chain, every script set, every block size):
   - [C03_index_refines_abstract_index]: indexing a chain block by block with filter_block from a fresh store
     yields, key by key, the abstract cell index of that chain.
   - [C03_index_is_exactly_the_live_cells]: ... which contains an entry exactly for every output of the chain that
     pays a registered script and that no input of the chain spends - nothing else (no phantom, no spent cell),
     nothing missing.  Hypotheses = what a valid chain guarantees: distinct block numbers, distinct transaction
     hashes, inputs refer to earlier transactions only.
   - [C03_skipping_untouched_blocks_is_exact]: the same holds when only a selection of the blocks is indexed, as the
     client does, provided every left-out block touches no registered script (criterion: [C03_untouched_criterion]).
   The end-to-end theorems cover a script set fixed from genesis and blocks indexed in chain order; set_scripts,
   fork rollback and fetched transactions are covered per operation (below, C04, C09) and by the correspondence
   ops c03 / c06 against an independent ground-truth index over whole client histories.

   Per operation:
   - [C03_no_phantom]: a cell in the index after filter_block was there before or is an output of this
     block carrying a registered script, under the right key (script, block, tx index, output index)
     and the right transaction.
   - [C03_spent_cell_removed]: a cell whose deletion is in the batch and that is not re-created later
     in the batch is gone.
   - [C03_outputs_recorded] / [C03_history_kept]: every output touching a registered script gets a
     history entry, and filtering never loses recorded activity.
   - [C03_fetch_does_not_disturb_index]: add_fetched_tx leaves cells, history, scripts and progress
     alone and never moves a transaction the index stores (the defect repaired by dd74d43). *)
From Coq Require Import NArith List.
From LC Require Import Store StoreProofs IndexSpec IndexRefinement IndexSpecMeaning IndexSkip.
Import ListNotations.
Open Scope N_scope.

Theorem C03_no_phantom :
  forall st b k tid',
    In (k, tid') (cells (filter_block st b)) ->
    In (k, tid') (cells st) \/
    exists ti t oi o,
      nth_error (b_txs b) (N.to_nat ti) = Some t /\ nth_error (t_outputs t) (N.to_nat oi) = Some o /\ tid' = t_id t /\
      ((k = (0, o_lock o, b_number b, ti, oi) /\ registered st 0 (o_lock o) = true) \/
       (exists s, o_type o = Some s /\ k = (1, s, b_number b, ti, oi) /\ registered st 1 s = true)).
Proof. exact filter_block_no_phantom. Qed.
Print Assumptions C03_no_phantom.

Theorem C03_spent_cell_removed :
  forall ops1 ops2 c k t,
    (forall t', ~ In (W_put_cell k t') ops2) ->
    ~ In (k, t) (fold_left cells_step (ops1 ++ W_del_cell k :: ops2) c).
Proof. exact cells_deleted. Qed.
Print Assumptions C03_spent_cell_removed.

Theorem C03_outputs_recorded :
  forall st b ti t oi o,
    nth_error (b_txs b) ti = Some t -> nth_error (t_outputs t) oi = Some o ->
    (registered st 0 (o_lock o) = true ->
       exists v, In ((0, o_lock o, b_number b, N.of_nat ti, N.of_nat oi, 1), v) (history (filter_block st b))) /\
    (forall s, o_type o = Some s -> registered st 1 s = true ->
       exists v, In ((1, s, b_number b, N.of_nat ti, N.of_nat oi, 1), v) (history (filter_block st b))).
Proof. exact filter_block_records_outputs. Qed.
Print Assumptions C03_outputs_recorded.

Theorem C03_history_kept :
  forall st b k v, In (k, v) (history st) -> exists v', In (k, v') (history (filter_block st b)).
Proof. exact filter_block_keeps_history. Qed.
Print Assumptions C03_history_kept.

Theorem C03_fetch_does_not_disturb_index :
  forall st t bn,
    cells (add_fetched_tx st t bn) = cells st /\ history (add_fetched_tx st t bn) = history st /\
    scripts (add_fetched_tx st t bn) = scripts st /\ min_filtered (add_fetched_tx st t bn) = min_filtered st /\
    matched (add_fetched_tx st t bn) = matched st /\
    (forall v, a_get N.eqb (t_id t) (txs st) = Some v -> txs (add_fetched_tx st t bn) = txs st).
Proof. exact add_fetched_tx_frame. Qed.
Print Assumptions C03_fetch_does_not_disturb_index.

(* ---- end to end ---- *)

Theorem C03_index_refines_abstract_index :
  forall regs bs,
    well_formed_chain bs ->
    forall k, a_get ckey_eqb k (cells (fold_left filter_block bs (fresh_store regs))) = spec_chain (reg_of regs) bs k.
Proof. exact index_refines_spec. Qed.
Print Assumptions C03_index_refines_abstract_index.

Theorem C03_index_is_exactly_the_live_cells :
  forall regs bs k tid,
    well_formed_chain bs -> refs_backwards (chain_txs bs) ->
    (a_get ckey_eqb k (cells (fold_left filter_block bs (fresh_store regs))) = Some tid
     <-> live (reg_of regs) (chain_txs bs) k tid).
Proof.
  intros regs bs k tid Hwf Href. rewrite index_refines_spec by exact Hwf.
  apply spec_chain_is_live_cells; [apply well_formed_pos_ok; exact Hwf | exact Href].
Qed.
Print Assumptions C03_index_is_exactly_the_live_cells.

(* The client indexes only blocks whose filter matched.  Indexing any selection of the chain's blocks that leaves out
   only blocks which touch no registered script - no output paying one, no input naming a live entry - yields the abstract
   index of the WHOLE chain ([selects]: keep a block, or skip it if it is [untouched] after the blocks before it). *)
Theorem C03_skipping_untouched_blocks_is_exact :
  forall regs bs sel,
    well_formed_chain bs -> selects (reg_of regs) empty_cmap bs sel ->
    forall k, a_get ckey_eqb k (cells (fold_left filter_block sel (fresh_store regs))) = spec_chain (reg_of regs) bs k.
Proof. exact index_of_selection. Qed.
Print Assumptions C03_skipping_untouched_blocks_is_exact.

Theorem C03_untouched_criterion :
  forall reg E b,
    (forall t, In t (b_txs b) ->
       (forall inp k, In inp (t_inputs t) -> E k = Some (fst inp) -> k_oi k <> snd inp) /\
       (forall o, In o (t_outputs t) -> reg 0 (o_lock o) = false /\ (forall s, o_type o = Some s -> reg 1 s = false))) ->
    untouched reg E b.
Proof. exact untouched_block. Qed.
Print Assumptions C03_untouched_criterion.

(* non-vacuity: two blocks; the second spends the first output of the first block's transaction and pays the watched
   lock script 5 again; the hypotheses hold and the index holds exactly the two unspent cells *)
Definition ex_chain : list block :=
  [ mkBlock 1 [ mkTx 100 [] [mkOut 5 None; mkOut 5 (Some 6)] ];
    mkBlock 2 [ mkTx 200 [(100, 0)] [mkOut 7 None; mkOut 5 None] ] ].

Example C03_example_hypotheses : well_formed_chain ex_chain /\ refs_backwards (chain_txs ex_chain).
Proof.
  split.
  - split; cbn; repeat constructor; cbn; intuition discriminate.
  - intros l1 p l2 H inp Hin q Hq. cbn in H.
    destruct l1 as [|a [|a' l1]]; cbn in H; inversion H; subst; cbn in Hin.
    + destruct Hin.
    + destruct Hin as [<-|[]]. destruct Hq as [<-|[]]. cbn. discriminate.
    + exfalso. match goal with H0 : [] = ?l ++ _ |- _ => destruct l; discriminate H0 end.
Qed.

Example C03_example_index :
  let st := fold_left filter_block ex_chain (fresh_store [mkSS 5 0 0]) in
  map fst (cells st) = [(0, 5, 2, 0, 1); (0, 5, 1, 0, 1)].
Proof. vm_compute. reflexivity. Qed.
