"""Per-property configuration of the checks."""

TRUSTED_BASE_COMMON = [
    "Coq 8.16.1 kernel (coqc); vm_compute used for Examples, *_refuted witnesses and for running the model; no native_compute",
    "Print Assumptions of every property theorem: 'Closed under the global context' (no axioms); grep for Admitted/admit/Axiom/Parameter/Conjecture on every run",
    "hand-written Gallina model tied to the code by the correspondence check (Rust harness compiled into the crate's test build with --features verif, /verif/harness; Python driver /verif/driver)",
    "external crates are oracles, not verified: ckb-types (compact_to_difficulty, molecule), ckb-pow, ckb-merkle-mountain-range, golomb-coded-set, ckb-verification/ckb-script, RocksDB, numext U256",
]

PROPS = {
    "C14": {
        "op": "c14",
        "run_module": "RunC14",
        "n": {"quick": 300, "thorough": 6000},
        "rule": "cases = fixed corpus witnesses + random verify_tau calls + random trend-method calls + generated tau-legal "
                "epoch histories with total/compact mutations + fully random (ill-formed) inputs + exhaustive small grid "
                "(start epoch difficulty <= 8, end <= 16, 2..4 switches (5 in thorough), min/mid/max reachable totals from a DP oracle); "
                "distinct = distinct model input expression; all are non-trivial (every case calls the function under test)",
        "assumptions": [
            "compact_to_difficulty (ckb-types) is an oracle: the model receives the block difficulty computed by the library",
            "tau > 0 (the constant TAU = 2 is the only value the handlers pass)",
        ],
        "trusted_base": ["modelled: verify_tau, verify_total_difficulty, EpochDifficultyTrend::* (send_last_state_proof.rs 353-660, 951-1076)"],
    },
    "C15": {
        "op": "c15",
        "run_module": "RunC15",
        "n": {"quick": 250, "thorough": 4000},
        "rule": "every fourth request case: build_prove_request_content_from_genesis (long fork) against the same model; cases = direct calls of multiply (ratio strata 0, ~1, 1/x, 1-1/x, random) + estimate_samples_count over a grid of "
                "(last_n, gap) around gap = last_n, last_n+1 and up to 2^63 + sample_blocks on random (start,last) numbers/difficulties "
                "(1-bit .. 255-bit ranges, numbers near 2^64) with each returned difficulty inverted to its u32 draw + "
                "build_prove_request_content on a real LightClientProtocol/Storage/Peers with and without a prove state and stored last-N headers; "
                "distinct = distinct model input expression; all non-trivial",
        "assumptions": [
            "f64 ln/powf/ceil are oracle values: recomputed by the harness with its own copy of the formulas and passed to the model",
            "thread_rng draws are not observable: each returned difficulty is inverted to a u32 numerator, the model must reproduce the set from them",
        ],
        "trusted_base": ["modelled: sampling.rs (multiply, estimate_samples_count, random_sample, sampling, sample_blocks), LightClientProtocol::build_prove_request_content"],
    },
    "C01": {
        "ops": [("c01", "RunC01", {"quick": 200, "thorough": 3000}), ("sys", "RunSys", {"quick": 60, "thorough": 1000})],
        "rule": "part A: check_if_response_is_matched called directly on honest-shaped header lists (reorg / sampled / last-N sections derived from a "
                "ground-truth difficulty table) and 3 mutations each (drop, duplicate, swap, number, parent total difficulty, compact, boundary, "
                "difficulties, start, last number, append, empty, reorg section, extra header); part B: the whole handler through received() on "
                "synthetic variable-difficulty chains (fresh client / previous proof with small gap / sampled gap), the client's own request, the "
                "honest prover's answer and 3 mutations of it from a 16-operator grid (header field forgeries incl. chain root, fork header "
                "substitution, proof item drop/duplicate/alter, other last header); distinct = distinct model input expression",
        "assumptions": [
            "oracle verdicts are computed by the harness through direct library calls: PoW engine verify, the harness's own reading of patched_is_valid, MMRProof::verify",
            "single peer (the copy-from-another-peer route is exercised under C11/C12)",
        ],
        "trusted_base": ["modelled: check_if_response_is_matched, SendLastStateProofProcess::execute, commit_prove_state, check_continuous_headers, is_parent_of"],
    },
    "C11": {
        "ops": [("sys", "RunSys", {"quick": 120, "thorough": 2000})],
        "rule": "event histories (6..30 events, plus closing rounds in the honest stratum) over 1-3 peers on a variable-difficulty main chain and a fork: "
                "connect, disconnect, refresh ticks with clock jumps around the 8 s / 60 s thresholds, last-state announcements (honest growth by 0, 1, "
                "<= last-N+1, many blocks; stale; other chain; forged child; bad chain root), proofs (honest, 16-operator mutations, unsolicited); "
                "one case = one whole history, compared step by step with Model/System.v; distinct = distinct history",
        "assumptions": ["request contents (random samples) are event inputs taken from what the implementation sent"],
        "trusted_base": ["modelled: PeerState transitions, Peers add/remove/get_peers_which_*, SendLastStateProcess, get_last_state(_proof), refresh_all_peers, update_prove_state_to_child"],
    },
    "C12": {
        "ops": [("sys", "RunSys", {"quick": 200, "thorough": 2000}), ("c01", "RunC01", {"quick": 120, "thorough": 1200})],
        "rule": "op c01 part D: fork switches onto branches whose total difficulty is impossible under the per-epoch bound although both end points agree "
                "(only the total-difficulty range check can refuse to store such a tip), part C: a real PoW engine; "
                "the event histories of C11 (incl. forged-child announcements of the header a peer has proven, competing chains, restarts) compared step by "
                "step with Model/System.v, plus raw-byte cases of the LAST_STATE / LAST_N_HEADERS values compared with Model/StoreCodec.v; oracles: stored "
                "total difficulty never decreases, stored tip is some peer's proven header, equals the cumulative difficulty of the generated chain, last-N "
                "are its ancestors, values read back as written; distinct = distinct history / codec input",
        "assumptions": ["restart = all in-memory state dropped, same RocksDB handle (durability of a completed put is RocksDB's contract)"],
        "trusted_base": ["modelled: commit_prove_state, update_prove_state_to_child, SendLastStateProcess, Storage::{update,get}_last_state, {update,get}_last_n_headers"],
    },
    "C05": {
        "ops": [("c05", "RunSys", {"quick": 400, "thorough": 6000}),
                ("sys", "RunSys", {"quick": 100, "thorough": 1500}),
                ("c01", "RunC01", {"quick": 120, "thorough": 1200}),
                ("fh", "RunFH", {"quick": 240, "thorough": 4000})],
        "rule": "op fh: an honest peer's authentic BlockFilterHashes are never banned (also after a fork switch), and a peer that delivers the blocks it was asked for is not timed out even when set_scripts cleared the matched blocks meanwhile; " + 
                "op c05: the honest prover's plan for requests drawn with the repository's own sampler on flat and variable-difficulty chains (gaps below, "
                "at and above last-N, unknown start hash) compared with Model/HonestProver.v, and the client's verdict on it; op sys: honest event histories "
                "(1-3 protocol-following peers at different heights, chain growth, reconnects, closing rounds) with the no-ban / convergence oracles; op c01: "
                "the honest answer through the whole handler; distinct = distinct model input expression",
        "assumptions": ["no light-client server crate is available offline: 'protocol-following' = the RFC 44 rules as specified in Model/HonestProver.v",
                        "Fresh: every honest peer's announced tip changes within the 60 s message timeout and is younger than MAX_TIP_AGE (documented disconnects otherwise)"],
        "trusted_base": ["modelled: the honest prover (spec), check_if_response_is_matched, the event system of Model/System.v"],
    },
    "C10": {
        "ops": [("c10", "RunSys", {"quick": 360, "thorough": 6000}),
                ("c01", "RunC01", {"quick": 160, "thorough": 2000}),
                ("sys", "RunSys", {"quick": 60, "thorough": 1000}),
                ("c14", "RunC14", {"quick": 150, "thorough": 3000}), ("c06", "RunC06", {"quick": 40, "thorough": 800}),
                ("fh", "RunFH", {"quick": 240, "thorough": 4000})],
        "rule": "op fh: BlockFilterHashes / BlockFilterCheckPoints / BlockFilters with boundary start numbers {0,1,..,2^32-1,2^63,2^64-2,2^64-1}, empty / short / long "
                "vectors, shorter re-sends of accepted hashes and random bytes, delivered to the filter protocol of a client with finalized check points, cached and "
                "latest hashes and a proven peer; op c10: every LightClientMessage union variant (default content), SendLastState / SendLastStateProof / SendBlocksProof(V1) / "
                "SendTransactionsProof(V1) with boundary values {0,1,2,2^32-1,2^63-1,2^63,2^64-1} / {0,1,2^256-2,2^256-1} on every numeric field, header "
                "vectors of length 0,1,2,3,11, consistent and inconsistent chain-root commitments, well-formed and garbage extra table fields, "
                "truncations, bit flips, byte noise and random bytes, delivered in six peer states (no peer, requested last state, requested first proof, "
                "proved, proved with pending fetch requests, requested new proof); ops c01 / sys / c14: the modelled handlers, where the model must predict "
                "a panic exactly where the implementation unwinds; distinct = distinct (state, message bytes)",
        "assumptions": ["molecule verification of the outer message (from_compatible_slice) is trusted",
                        "filter / sync / relay protocol messages are covered by the ops of C06, C02 and C18 as they are added"],
        "trusted_base": ["catch_unwind around CKBProtocolHandler::received; modelled panic sites: Matching.v, LastStateProof.v, Difficulty.v, System.v"],
    },
    "C13": {
        "ops": [("c13", "RunC13", {"quick": 240, "thorough": 3000})],
        "rule": "a real RocksDB filled through filter_block with generated blocks (lock/type scripts from a pool sharing code hash, hash type and args prefixes incl. "
                "trailing 0x00 / 0xff bytes; several cells per block; spends), queried through BlockFilterRpcImpl::{get_cells, get_transactions, get_cells_capacity} "
                "with exact / shortened / extended / empty args search keys, both orders, limits 1,2,3,5,1000, all five filters with random (also empty and inverted) "
                "ranges - empty ([0,0), [a,a)), inverted and lower-end ([0,1)) ranges are strata of their own, and half of the filtered queries carry exactly ONE of the five filters; every walk follows last_cursor to the end, each page is one case compared with Model/Query.v on the raw key dump; oracle: pages concatenated = "
                "the matching entries of the dump exactly once in key order, capacity = sum over get_cells + stored tip; distinct = distinct (query, cursor, dump)",
        "assumptions": ["RocksDB iteration order = bytewise key order; snapshot isolation trusted", "matching = the stored key starts with the search prefix (as ckb-indexer)"],
        "trusted_base": ["modelled: build_query_options, build_filter_options, get_cells, get_transactions (grouped and ungrouped), get_cells_capacity; key layout read from the dump"],
    },
    "C07": {
        "ops": [("c07", "RunC07", {"quick": 150, "thorough": 3000})],
        "rule": "a finalization tick that panics while a quorum of agreeing proven peers exists is class C07-agreement-blocked; worlds with outbound capacity 1..7 (quorum 1..4), 1..capacity peers (proved with probability 0.9), honest vectors and vectors deviating at one index "
                "or from one index on, delivered as BlockFilterCheckPoints messages of length 0,1,2..6 with aligned / shifted / stale / unaligned start numbers in "
                "random order through FilterProtocol::received, interleaved with refresh ticks (finalization) over 1..4 rounds; each message and each tick is one "
                "case compared with Model/CheckPoints.v; oracles: quorum for every finalized value, final values never rewritten, index monotone, contradicting peers banned",
        "assumptions": ["HashMap iteration order: the finalized values are an input of the model, which checks that they are among the outcomes the code allows"],
        "trusted_base": ["modelled: CheckPoints::add_check_points, finalize_check_points (cleaning, length_max, per-index vote, retain, write)"],
    },
    "C03": {
        "ops": [("c03", "RunC03", {"quick": 300, "thorough": 5000}), ("c06", "RunC06", {"quick": 40, "thorough": 800})],
        "rule": "storage-level histories (6..22 events) on a real RocksDB: set_scripts (all/partial/delete, start numbers at, below and above progress), filter_block of "
                "generated blocks (spends of live outputs incl. same-block chains, multi-script and typed cells), update_block_number, rollback_to_block followed by a "
                "different branch, late add_fetched_tx answers, min-filtered updates, pending matched records; script pools with and without prefix-related args; "
                "after every event the full dump (scripts, cell index, history, tx table, headers, min filtered, records) is compared with Model/Store.v; in the stratum "
                "with a static script set registered at 0 the cell index is also compared with the ground-truth UTXO set of the current branch",
        "assumptions": ["RocksDB WriteBatch atomicity and ordering trusted", "script and transaction identities interned by the harness"],
        "trusted_base": ["modelled: update_filter_scripts, filter_block, rollback_to_block, update_block_number, add_fetched_tx, matched-block records"],
    },
    "C04": {
        "ops": [("c03", "RunC03", {"quick": 300, "thorough": 5000}), ("sys", "RunSys", {"quick": 80, "thorough": 1500}),
                ("fh", "RunFH", {"quick": 240, "thorough": 4000}), ("c08", "RunC08", {"quick": 3, "thorough": 30})],
        "rule": "op c08 (whole-client histories whose fork switch really rolls back: pending records above the fork point, abandoned blocks already "
                "indexed, filter progress rewound below the fork point by a partial set_scripts): after the switch and continued syncing the index must equal "
                "the new chain (class C04-index-keeps-abandoned-branch); op fh (fork histories): two honest peers deliver filter hashes, the chain reorganises within last-N, both prove the new tip, every filter-hash "
                "request is answered from the new branch: no ban, and the hashes trusted afterwards are the new branch's; "
                "op c03: storage-level histories with rollback_to_block followed by a different branch, every step's dump compared with Model/Store.v and (static script "
                "set) the cell index with the ground-truth UTXO set of the branch that is current; op sys: whole-client histories with competing chains, fork switches "
                "and restarts compared with Model/System.v (stored tip, last-N, pending records after commit_prove_state)",
        "assumptions": ["RocksDB WriteBatch atomicity and ordering trusted", "honest peers answer with the RFC-44 prover re-implemented in the harness"],
        "trusted_base": ["modelled: commit_prove_state (fork detection, matched-record sweep), rollback_to_block"],
    },
    "C09": {
        "ops": [("c03", "RunC03", {"quick": 300, "thorough": 5000}), ("c06", "RunC06", {"quick": 40, "thorough": 800}),
                ("c17", "RunC17", {"quick": 1, "thorough": 6})],
        "rule": "op c17 (one world): set_scripts run on a second thread while a filter batch / block arrival / fork switch is paused at each of its "
                "writes, and the other way round: the outcome must be that of one of the two serial orders (class C09-set-scripts-interleaved); "
                "storage-level histories in which set_scripts (all / partial / delete, empty lists, duplicates, start numbers above and below progress) is issued between "
                "filter_block / update_block_number / min-filtered updates / pending matched records; every step's dump compared with Model/Store.v; after every set_scripts "
                "the script set is compared with an independent replace / upsert / remove computation, pending records must be gone, and when the progress invariant held "
                "before the call the new resume point must be at or below every registered script's number",
        "assumptions": ["RocksDB WriteBatch atomicity and ordering trusted"],
        "trusted_base": ["modelled: update_filter_scripts, update_block_number, matched-block records"],
    },
    "C06": {
        "ops": [("c06", "RunC06", {"quick": 60, "thorough": 1200}), ("fh", "RunFH", {"quick": 240, "thorough": 4000})],
        "rule": "op c06 substituted-body scenario: GetBlocks answered with the proven header and another body, then with the authentic block; op c06 extra scenarios: download order (a pending record straddling block 255/256 and 511/512 whose blocks form a spend chain, bodies delivered shuffled), "
                "delayed downloads (answers held until two records are pending, the index judged when the first is completed), long batches with an undecodable tail; "
                "op fh: peers that announced more than they proved, a forged cached interior with the genuine check point hash at its end (known finding); "
                "op fh: BlockFilterHashes messages (authentic ranges at every position relative to the finalized / cached check points and to what is stored, "
                "overlaps, shorter re-sends, wrong parent / hash, other branch, boundary start numbers, unproven senders) against Model/HashesUpdate.v: the per-peer "
                "and the cached filter hashes only grow at their end, anchored at finalized check points; "
                "whole-client worlds (light-client + filter + sync handlers over one store): chains of 38..64 blocks with transaction bodies, real block filters and filter "
                "hash chains; 1..3 proven peers (real handshake), finalized check points 0..3, cached / latest filter hashes complete, partial or empty, min filtered block "
                "number anywhere; BlockFilters messages honest and mutated (tampered or foreign filter, shifted start, count mismatch, substituted block hash, empty, "
                "unproven or unknown sender, swapped entries, other branch, over-long batch); the immediate effect is compared with Model/Filters.v; matched blocks are "
                "then proven and downloaded through SendBlocksProof / SendBlock and the index is compared with the ground truth of the chain up to every script's recorded number",
        "assumptions": ["calc_filter_hash collision-free (a pair outside the supplied table hashes to a value no expected hash equals)", "GCS filter matching is an oracle (golomb-coded-set)"],
        "trusted_base": ["modelled: BlockFiltersProcess::execute, check_filters_data, could_request_more_block_filters, cached-hash reset"],
    },
    "C02": {
        "ops": [("c02", "RunC02", {"quick": 60, "thorough": 1500}), ("c06", "RunC06", {"quick": 40, "thorough": 800})],
        "rule": "op c02 blocks proofs with the requested last header carrying the chain root of a private MMR (blocks-proof-forged-chain-root); op c06 (filter worlds): matched blocks are proven through SendBlocksProof answers that report some hashes missing, and bodies of never-proven "
                "hashes are sent: nothing unproven may be marked proved or indexed (classes C02-unproven-...); "
                "whole-client worlds with transaction bodies: fetch_header / fetch_transaction through the RPC implementations for hashes on the proven chain, on another "
                "branch and unknown; fetch ticks; SendBlocksProof (v0 / v1) and SendTransactionsProof answers honest and mutated (foreign / dropped / extra header, found as "
                "missing and vice versa, bad MMR proof, bad extension, newer last state, forged transaction under a valid Merkle path, wrong witnesses root, other block's "
                "header) and unsolicited; peer disconnects and fresh proven peers; every event's status code, fetch tables and stored headers / transactions are compared "
                "with Model/Fetch.v; SendBlock for proven matched blocks with authentic and foreign bodies; authenticity of everything served is judged against the chain",
        "assumptions": ["MMR / Merkle / PoW / extra-hash verdicts are oracle inputs computed with direct library calls", "hash interning"],
        "trusted_base": ["modelled: SendBlocksProofProcess::execute, SendTransactionsProofProcess::execute, check_block_hashes / check_tx_hashes, fetch tables, add_block acceptance"],
    },
    "C16": {
        "ops": [("c02", "RunC02", {"quick": 60, "thorough": 1500}), ("c08", "RunC08", {"quick": 3, "thorough": 30}), ("px", "RunPx", {"quick": 400, "thorough": 8000})],
        "rule": "op px (every writer of the maps get_transaction_with_header goes through - filter_block, add_fetched_tx, add_fetched_header, rollback_to_block - in generated "
                "histories on a real RocksDB, the block reported for every transaction compared with Model/TxPairing.v after each operation; a mispairing with no height written "
                "twice is class C16-pairing-wrong-without-height-reuse, excluded by theorem); op c08 (whole-client histories with a fork switch that rolls back and re-indexes): after every run get_transaction_with_header of every generated "
                "transaction must name a block that contains it (class C16-transaction-paired-with-wrong-block); op c02 withheld-answer scenario; "
                "same histories as C02: the fetch status machine (added / fetching / fetched / not_found) through the real RPCs, ticks, answers, rejections, disconnects; "
                "after every history closing rounds with an honest proven peer must leave every requested hash fetched (on the chain) or reported missing (unknown)",
        "assumptions": ["as C02"],
        "trusted_base": ["modelled: fetch_header / fetch_transaction status, FetchInfo transitions, fetch_headers_txs assignment, remove_peer"],
    },
    "C18": {
        "ops": [("c18", "RunC18", {"quick": 80, "thorough": 2000})],
        "rule": "mutation relative-since-on-pending-parent; send_transaction through the real RPC implementation with real script execution (always-success cell as code dep, funding cells fetched earlier): valid "
                "transactions, chains spending pending outputs, byte-identical re-submissions, and one mutation each of a valid one (outputs exceed inputs, capacity below "
                "occupied, duplicate / unknown / out-of-range input, unknown or missing code dep, immature since, no outputs); pool limits 2..5; peers opening the relay "
                "protocol (announcements) and GetRelayTransactions; per-event results and the final pool (cycles, peers announced to) compared with Model/Pending.v",
        "assumptions": ["verify_tx's verdict (ckb-verification, ckb-script, ckb-vm) is an oracle input of the model; the harness' expected verdicts are by construction of each mutation"],
        "trusted_base": ["modelled: PendingTxs::{push, get, fetch_transaction_hashes_for_broadcast}, send_transaction admission, RelayProtocol::connected, GetRelayTransactions"],
    },
    "C08": {
        "ops": [("c08", "RunC08", {"quick": 6, "thorough": 60})],
        "rule": "per six histories three are targeted (pending records above the fork point and a fork switch that really rolls back: last-N 4, the new tip 7 blocks ahead, "
                "3 blocks deep; variants: records only pending / abandoned blocks already indexed / plus a partial set_scripts that rewinds filter progress below the fork point) "
                "and three generated; the peer is a full node that also serves blocks of the abandoned branch by hash; "
                "generated sync histories on a whole client (first-run initialisation, handshake / tip update, fork switch with rollback, set_scripts all / partial / delete, "
                "filter batches, block proofs and downloads with indexing); the crash-free run counts the database writes of every operation through the guarded hook in "
                "storage.rs; then for every operation and every write boundary in it (quick: at most 6 per operation, thorough: all) a fresh client re-runs the history, "
                "unwinds before that write, is restarted from the store alone and keeps syncing with the honest peer until quiet; the store must open, nothing may abort, "
                "every script's index must equal the chain up to the number get_scripts reports, and that number and the tip must reach what the crash-free run reaches",
        "assumptions": ["a RocksDB write (single put / delete / WriteBatch) is atomic and durable in order", "the crash is modelled as an unwind before the write, followed by discarding all in-memory state"],
        "trusted_base": ["hook: storage.rs verif_hook::before_write (cargo feature verif)"],
    },
    "C17": {
        "ops": [("c17", "RunC17", {"quick": 2, "thorough": 12})],
        "rule": "reader cases: get_cells_capacity with the tip, get_transactions / get_cells with filter.script and a prefix query over two registered scripts next to a thread indexing and rolling back a block; whole clients prepared identically (proven peer, two scripts, a pending matched record with all but one body delivered, the next filter batch, a proof for "
                "a heavier branch outstanding); operations: set_scripts through the RPC implementation, BlockFilters through FilterProtocol, the last SendBlock through "
                "SyncProtocol, SendLastStateProof (fork switch with rollback) through LightClientProtocol; each alone with the global lock probed (try_write) at every "
                "database write; every ordered pair (A, B) with A paused on its own thread before each of its writes, B started on a second thread, A resumed; the final "
                "store, tip, last-n, records, cell index and in-memory map must equal the outcome of A;B or B;A, and both threads must finish",
        "assumptions": ["one pause point per run (two-operation schedules)", "thread scheduling beyond the forced pause is whatever the OS does"],
        "trusted_base": ["hook: storage.rs verif_hook (cargo feature verif)"],
    },
}
