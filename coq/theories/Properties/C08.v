(* C08 — A crash at any storage write loses no script activity and leaves a usable store.
   Model: Model/Crash.v — every sync operation as the list of its atomic database writes in program order
   (after the repairs 823c417, 18ab572, dfad7d8, e38bc25, 00a37b0); a crash leaves the store after some prefix.
   [Safe touch st]: every block that carries activity of a registered script and lies between the script's
   recorded number and the filter progress is indexed already or still named by a pending record (which a
   restart downloads and filters again).  [all_safe] ranges over EVERY prefix of an operation's writes.

   - [C08_block_download_safe_at_every_write]: index each block, raise the numbers, remove the record — in that order.
   - [C08_filter_batch_safe_at_every_write]: record and progress in one write (or, when nothing matches, numbers first).
   - [C08_set_scripts_safe_at_every_write]: scripts, progress and dropped records in one write.
   - [C08_old_order_unsafe]: the order before the repair (record removed first) is refuted by a witness.
   The tie to the code is the write-order correspondence of op c08: the store observed before every write of
   every operation equals the model's prefix states.  Hypotheses of the theorems that come from elsewhere:
   filters have no false negatives (GCS), the rewind rule of set_scripts (C09).  First-run initialisation and
   the tip update are single writes since 18ab572 / 823c417 (nothing to prove); the end-to-end statement
   (restart, continued syncing, same answers) is decided by the crash-enumeration op, not by a theorem. *)
From Coq Require Import NArith List.
From LC Require Import Crash CrashProofs.
Import ListNotations.
Open Scope N_scope.

Theorem C08_block_download_safe_at_every_write :
  forall touch st start count ms,
    Safe touch st ->
    (forall r, In r (cs_records st) -> fst (fst r) = start -> forall b, In b (snd r) -> exists t, In (b, t) ms) ->
    (forall b, In (b, false) ms -> forall s n, In (s, n) (cs_scripts st) -> touch b s = false) ->
    all_safe touch (prefix_states st (complete_writes start count ms)).
Proof. exact complete_writes_safe. Qed.
Print Assumptions C08_block_download_safe_at_every_write.

Theorem C08_filter_batch_safe_at_every_write :
  forall touch st mem_empty start count ms,
    Safe touch st -> start = cs_min st + 1 -> 1 <= count ->
    (forall s n b, In (s, n) (cs_scripts st) -> touch b s = true -> start <= b <= start + count - 1 -> n < b -> In b ms) ->
    (forall r, In r (cs_records st) -> fst (fst r) <> start) ->
    all_safe touch (prefix_states st (batch_writes mem_empty start count ms)).
Proof. exact batch_writes_safe. Qed.
Print Assumptions C08_filter_batch_safe_at_every_write.

Theorem C08_set_scripts_safe_at_every_write :
  forall touch st l m genesis,
    Safe touch st -> m <= cs_min st ->
    (forall r, In r (cs_records st) -> forall b, In b (snd r) -> m < b) ->
    (forall s n, In (s, n) l -> In (s, n) (cs_scripts st) \/ m <= n) ->
    all_safe touch (prefix_states st (set_scripts_writes l (Some m) genesis)).
Proof. exact set_scripts_writes_safe. Qed.
Print Assumptions C08_set_scripts_safe_at_every_write.

Theorem C08_old_order_unsafe :
  exists touch st start count ms,
    Safe touch st /\ ~ all_safe touch (prefix_states st (complete_writes_old start count ms)).
Proof. exact complete_writes_old_unsafe. Qed.
Print Assumptions C08_old_order_unsafe.

(* the premises are satisfiable: a store with one pending record, the block it names touching the script *)
Example C08_safe_inhabited :
  Safe (fun b s => (b =? 3) && (s =? 0)) (mkCS [(0, 0)] 7 [(1, 7, [3])] []).
Proof.
  intros s n b [E|[]] Ht Hr. inversion E; subst. right. exists (1, 7, [3]). split; [left; reflexivity|].
  apply andb_prop in Ht. destruct Ht as [Ht _]. apply N.eqb_eq in Ht. subst. left; reflexivity.
Qed.
