(* Specification of a protocol-following full node answering GetLastStateProof (RFC 44),
   over an abstract chain = the list of block difficulties (block i has number i).
   The harness's prover (/verif/harness/prover.rs) implements exactly this plan. *)
From LC Require Export Matching.
Open Scope N_scope.

Definition chain := list N.   (* block difficulties, index = block number *)

Fixpoint prefix_sum (c : chain) (n : nat) : N :=   (* total difficulty of blocks 0 .. n-1 *)
  match n, c with
  | S n', d :: tl => d + prefix_sum tl n'
  | _, _ => 0
  end.

Definition td_at (c : chain) (i : N) : N := prefix_sum c (S (N.to_nat i)).       (* up to and including block i *)
Definition ptd_at (c : chain) (i : N) : N := prefix_sum c (N.to_nat i).           (* parent total difficulty *)
Definition bd_at (c : chain) (i : N) : N := nth (N.to_nat i) c 0.

Definition hdr (c : chain) (i : N) : mhdr := mkMH i (ptd_at c i) (bd_at c i).

Definition range (a : N) (n : nat) : list N := map (fun k => a + N.of_nat k) (seq 0 n).

(* first block in [a, a+n) whose total difficulty reaches d *)
Fixpoint first_reaching (c : chain) (d : N) (a : N) (n : nat) : option N :=
  match n with
  | O => None
  | S n' => if d <=? td_at c a then Some a else first_reaching c d (a + 1) n'
  end.

Fixpoint sample_numbers (c : chain) (ds : list N) (a : N) (n : nat) (prev : option N) : list N :=
  match ds with
  | [] => []
  | d :: tl =>
      match first_reaching c d a n with
      | Some x =>
          if match prev with Some p => p =? x | None => false end
          then sample_numbers c tl a n prev
          else x :: sample_numbers c tl a n (Some x)
      | None => sample_numbers c tl a n prev
      end
  end.

Fixpoint take_le (bound : N) (ds : list N) : list N :=
  match ds with
  | d :: tl => if d <=? bound then d :: take_le bound tl else []
  | [] => []
  end.

Record plan := mkPlan { pl_reorg : list N; pl_sampled : list N; pl_last_n : list N }.

(* [on_chain] : the request's start hash is the prover's block at start_number *)
Definition plan_response (c : chain) (on_chain : bool) (last_n start last boundary : N) (ds : list N) : plan :=
  let reorg :=
    if on_chain || (start =? 0) then []
    else let first := N.max 1 (start - last_n) in range first (N.to_nat (start - first)) in
  if last - start <=? last_n then
    mkPlan reorg [] (range start (N.to_nat (last - start)))
  else
    let b0 := match first_reaching c boundary start (N.to_nat (last - start)) with
              | Some x => x | None => last - last_n end in
    let b := if last - b0 <? last_n then last - last_n else b0 in
    let sampled :=
      if 0 <? b
      then sample_numbers c (take_le (td_at c (b - 1)) ds) start (N.to_nat (b - start)) None
      else [] in
    mkPlan reorg sampled (range b (N.to_nat (last - b))).

Definition response_headers (c : chain) (p : plan) : list mhdr :=
  map (hdr c) (pl_reorg p ++ pl_sampled p ++ pl_last_n p).

(* the client's verdict on the honest answer *)
Definition honest_verdict (c : chain) (on_chain : bool) (last_n start last boundary : N) (ds : list N) : res (N * N * N) :=
  matched last_n start boundary ds (response_headers c (plan_response c on_chain last_n start last boundary ds)) last.
