(* Lemmas about Model/Query.v (C13). *)
From Coq Require Import NArith Lia List Bool Arith Sorted.
From LC Require Import Query.
Import ListNotations.
Open Scope N_scope.
Open Scope bool_scope.

(* ------------------------------------------------------------------------------------ *)
(* abstract pagination: pages of at most [limit] passing entries, each next page starting after
   the last entry of the previous one, concatenate to exactly the passing entries, in order *)
Section Pages.
  Context {E : Type} (pass : E -> bool) (limit : nat).

  Definition page (rest : list E) : list E := firstn limit (filter pass rest).

  (* what is left after the n-th passing entry *)
  Fixpoint drop_through (n : nat) (rest : list E) : list E :=
    match n, rest with
    | O, _ => rest
    | S _, [] => []
    | S n', e :: tl => if pass e then drop_through n' tl else drop_through n tl
    end.

  Lemma filter_split n rest :
    filter pass rest = firstn n (filter pass rest) ++ filter pass (drop_through n rest).
  Proof.
    revert rest; induction n as [|n IH]; intros rest; [destruct rest; reflexivity|].
    induction rest as [|e tl IHt]; [reflexivity|].
    cbn [filter drop_through]. destruct (pass e).
    - cbn [firstn app]. f_equal. apply IH.
    - exact IHt.
  Qed.

  Lemma drop_through_length n rest : (length (drop_through n rest) <= length rest)%nat.
  Proof.
    revert rest; induction n as [|n IH]; intros rest; [destruct rest; cbn; lia|].
    induction rest as [|e tl IHt]; [cbn; lia|].
    cbn [drop_through length]. destruct (pass e); [specialize (IH tl); lia | lia].
  Qed.

  Lemma drop_through_shrinks n rest :
    filter pass rest <> [] -> (length (drop_through (S n) rest) < length rest)%nat.
  Proof.
    induction rest as [|e tl IHt]; [intros H; contradiction H; reflexivity|].
    cbn [filter drop_through length]. destruct (pass e).
    - intros _. pose proof (drop_through_length n tl). lia.
    - intros H. specialize (IHt H). lia.
  Qed.

  Fixpoint walk (fuel : nat) (rest : list E) : list E :=
    match fuel with
    | O => []
    | S f =>
        match page rest with
        | [] => []
        | p => p ++ walk f (drop_through limit rest)
        end
    end.

  Lemma walk_exact : forall fuel rest,
    (1 <= limit)%nat -> (length rest < fuel)%nat -> walk fuel rest = filter pass rest.
  Proof.
    induction fuel as [|f IH]; intros rest Hl Hf; [lia|].
    cbn [walk]. unfold page.
    destruct (filter pass rest) as [|x xs] eqn:F.
    - destruct limit; reflexivity.
    - rewrite <- F.
      assert (Hne : firstn limit (filter pass rest) <> []).
      { rewrite F. destruct limit as [|l]; [lia|]. cbn. discriminate. }
      destruct (firstn limit (filter pass rest)) as [|y ys] eqn:P; [contradiction Hne; reflexivity|].
      rewrite <- P. rewrite IH.
      + symmetry. apply filter_split.
      + exact Hl.
      + destruct limit as [|l]; [lia|].
        assert (filter pass rest <> []) by (rewrite F; discriminate).
        pose proof (drop_through_shrinks l rest H). lia.
  Qed.
End Pages.

(* ------------------------------------------------------------------------------------ *)
(* bytes *)

Lemma bytes_cmp_refl a : bytes_cmp a a = Eq.
Proof. induction a as [|x a IH]; [reflexivity|]. cbn. rewrite N.compare_refl. exact IH. Qed.

Lemma bytes_cmp_eq a b : bytes_cmp a b = Eq -> a = b.
Proof.
  revert b; induction a as [|x a IH]; intros [|y b]; cbn; try discriminate; [reflexivity|].
  destruct (x ?= y) eqn:C; try discriminate. apply N.compare_eq in C. intros H. f_equal; [exact C | apply IH; exact H].
Qed.

Lemma bytes_cmp_antisym a b : bytes_cmp b a = CompOpp (bytes_cmp a b).
Proof.
  revert b; induction a as [|x a IH]; intros [|y b]; cbn; try reflexivity.
  rewrite (N.compare_antisym x y). destruct (x ?= y); cbn; [apply IH | reflexivity | reflexivity].
Qed.

Lemma bytes_cmp_trans a b c : bytes_cmp a b = Lt -> bytes_cmp b c = Lt -> bytes_cmp a c = Lt.
Proof.
  revert b c; induction a as [|x a IH]; intros [|y b] [|z c]; cbn; try discriminate; try reflexivity.
  destruct (x ?= y) eqn:C1; try discriminate; destruct (y ?= z) eqn:C2; try discriminate.
  - apply N.compare_eq in C1, C2. subst. rewrite N.compare_refl. apply IH.
  - apply N.compare_eq in C1. subst. rewrite C2. reflexivity.
  - apply N.compare_eq in C2. subst. rewrite C1. reflexivity.
  - intros _ _. apply N.compare_lt_iff in C1. apply N.compare_lt_iff in C2.
    assert (H : x < z) by (eapply N.lt_trans; eauto). rewrite (proj2 (N.compare_lt_iff x z) H). reflexivity.
Qed.

Definition blt (a b : bytes) : Prop := bytes_cmp a b = Lt.

Lemma bytes_leb_refl a : bytes_leb a a = true.
Proof. unfold bytes_leb. rewrite bytes_cmp_refl. reflexivity. Qed.

Lemma blt_leb a b : blt a b -> bytes_leb a b = true.
Proof. unfold blt, bytes_leb. intros ->. reflexivity. Qed.

Lemma blt_not_leb a b : blt a b -> bytes_leb b a = false.
Proof. unfold blt, bytes_leb. intros H. rewrite bytes_cmp_antisym, H. reflexivity. Qed.

(* ------------------------------------------------------------------------------------ *)
(* forward seek on a strictly sorted store *)
Section Seek.
  Context {E : Type} (key_of : E -> bytes).

  Definition sorted_db (db : list E) : Prop := StronglySorted (fun a b => blt (key_of a) (key_of b)) db.

  (* seeking to the key of a stored entry returns that entry and everything after it *)
  Lemma seek_fwd_at pre e post :
    sorted_db (pre ++ e :: post) ->
    seek key_of (key_of e) true (pre ++ e :: post) = e :: post.
  Proof.
    unfold seek. intros S. rewrite filter_app. cbn [filter]. rewrite bytes_leb_refl.
    assert (Hpre : filter (fun x => bytes_leb (key_of e) (key_of x)) pre = []).
    { induction pre as [|a pre IH]; [reflexivity|]. cbn [app] in S. inversion S as [|? ? S' F]; subst.
      cbn [filter]. rewrite Forall_forall in F.
      rewrite (blt_not_leb (key_of a) (key_of e)) by (apply F; apply in_or_app; right; left; reflexivity).
      apply IH. exact S'. }
    rewrite Hpre. cbn [app]. f_equal.
    assert (Spost : sorted_db (e :: post)).
    { clear Hpre. induction pre as [|a pre IH]; [exact S|]. cbn [app] in S. inversion S; subst. apply IH. assumption. }
    inversion Spost as [|? ? _ F]; subst. rewrite Forall_forall in F.
    clear - F. induction post as [|b post IH]; [reflexivity|].
    cbn [filter]. rewrite (blt_leb (key_of e) (key_of b)) by (apply F; left; reflexivity).
    f_equal. apply IH. intros x Hx. apply F. right. exact Hx.
  Qed.

  (* the next page: cursor = key of a stored entry, skip 1 = everything strictly after it *)
  Lemma seek_after_cursor pre e post :
    sorted_db (pre ++ e :: post) ->
    skipn 1 (seek key_of (key_of e) true (pre ++ e :: post)) = post.
  Proof. intros S. rewrite seek_fwd_at by exact S. reflexivity. Qed.
End Seek.

Lemma take_while_app {A} (p : A -> bool) l1 l2 :
  forallb p l1 = true -> take_while p (l1 ++ l2) = l1 ++ take_while p l2.
Proof.
  induction l1 as [|a l1 IH]; [reflexivity|]. cbn [forallb app take_while].
  intros H. apply andb_true_iff in H. destruct H as [H1 H2]. rewrite H1. f_equal. apply IH. exact H2.
Qed.

(* ------------------------------------------------------------------------------------ *)
(* filters are exact: a page contains only passing entries of the scan, in scan order *)
Lemma get_cells_sound tag raw al other f asc limit cursor db page lk e :
  get_cells tag raw al other f asc limit cursor db = (page, lk) ->
  In e page -> cell_pass other f e = true /\ In e (scan ce_key tag raw al asc cursor db).
Proof.
  unfold get_cells. intros H Hin. inversion H; subst. clear H.
  assert (In e (filter (cell_pass other f) (scan ce_key tag raw al asc cursor db))).
  { clear - Hin. revert Hin. generalize (filter (cell_pass other f) (scan ce_key tag raw al asc cursor db)).
    induction limit as [|n IH]; intros l H; [contradiction|]. destruct l as [|a l]; [contradiction|].
    cbn in H. destruct H as [->|H]; [left; reflexivity | right; apply IH; exact H]. }
  apply filter_In in H. tauto.
Qed.

(* the capacity is the sum over exactly the cells get_cells returns (with an unbounded limit) *)
Lemma capacity_is_sum tag raw al other f db :
  get_cells_capacity tag raw al other f db =
  fold_right N.add 0 (map ce_cap (fst (get_cells tag raw al other f true
       (length (scan ce_key tag raw al true None db)) None db))).
Proof.
  unfold get_cells_capacity, get_cells. cbn [fst].
  rewrite firstn_all2; [reflexivity|].
  generalize (scan ce_key tag raw al true None db). intros l.
  induction l as [|a l IH]; [cbn; lia|]. cbn [filter length]. destruct (cell_pass other f a); cbn [length]; lia.
Qed.

(* ------------------------------------------------------------------------------------ *)
(* following last_cursor: the byte-level statement for ascending order *)

Section Cursor.
  Context {E : Type} (key_of : E -> bytes).

  (* the entries after the (first) entry with key c *)
  Fixpoint after_key (c : bytes) (l : list E) : list E :=
    match l with
    | [] => []
    | e :: tl => if bytes_eqb (key_of e) c then tl else after_key c tl
    end.

  Lemma bytes_eqb_refl a : bytes_eqb a a = true.
  Proof. unfold bytes_eqb. rewrite bytes_cmp_refl. reflexivity. Qed.

  Lemma blt_neq a b : blt a b -> bytes_eqb a b = false.
  Proof. unfold blt, bytes_eqb. intros ->. reflexivity. Qed.

  Lemma blt_neq' a b : blt a b -> bytes_eqb b a = false.
  Proof. unfold blt, bytes_eqb. intros H. rewrite bytes_cmp_antisym, H. reflexivity. Qed.

  Lemma sorted_app_l l1 l2 : sorted_db key_of (l1 ++ l2) -> sorted_db key_of l1.
  Proof.
    induction l1 as [|a l1 IH]; intros S; [constructor|]. cbn [app] in S. inversion S as [|? ? S' F]; subst.
    constructor; [apply IH; exact S'|]. rewrite Forall_forall in *. intros x Hx. apply F. apply in_or_app. left; exact Hx.
  Qed.

  Lemma sorted_app_r l1 l2 : sorted_db key_of (l1 ++ l2) -> sorted_db key_of l2.
  Proof. induction l1 as [|a l1 IH]; intros S; [exact S|]. cbn [app] in S. inversion S; subst. apply IH. assumption. Qed.

  Lemma after_key_at pre e post :
    sorted_db key_of (pre ++ e :: post) -> after_key (key_of e) (pre ++ e :: post) = post.
  Proof.
    induction pre as [|a pre IH]; intros S.
    - cbn. rewrite bytes_eqb_refl. reflexivity.
    - cbn [app after_key]. cbn [app] in S. inversion S as [|? ? S' F]; subst. rewrite Forall_forall in F.
      rewrite (blt_neq (key_of a) (key_of e)) by (apply F; apply in_or_app; right; left; reflexivity).
      apply IH. exact S'.
  Qed.

  Context (prefix : bytes).
  Let P := fun e : E => starts_with (key_of e) prefix.

  (* the scan with a cursor that is the key of an entry of the current remainder is what follows that entry *)
  Lemma scan_after db pre m1 e m2 r :
    sorted_db key_of db ->
    db = pre ++ m1 ++ e :: m2 ++ r ->
    forallb P m2 = true -> take_while P r = [] ->
    take_while P (skipn 1 (seek key_of (key_of e) true db)) = m2.
  Proof.
    intros S -> Hm2 Hr.
    replace (pre ++ m1 ++ e :: m2 ++ r) with ((pre ++ m1) ++ e :: (m2 ++ r)) in * by (rewrite <- app_assoc; reflexivity).
    rewrite seek_after_cursor by exact S.
    rewrite take_while_app by exact Hm2. rewrite Hr. apply app_nil_r.
  Qed.
End Cursor.

Lemma last_key_in {E} (key_of : E -> bytes) (l : list E) a :
  exists l1 e, a :: l = l1 ++ [e] /\ last_key key_of (a :: l) = key_of e.
Proof.
  destruct (exists_last (l := a :: l) ltac:(discriminate)) as [l1 [e H]].
  exists l1, e. split; [exact H|]. unfold last_key. rewrite H, rev_app_distr. reflexivity.
Qed.

(* splitting a list at the last element of a non-empty page of passing entries *)
Lemma page_split {E} (pass : E -> bool) : forall (limit : nat) (rest : list E) p1 e,
  firstn limit (filter pass rest) = p1 ++ [e] ->
  exists r1 r2, rest = r1 ++ e :: r2 /\ filter pass r1 = p1 /\ pass e = true /\
                filter pass rest = (p1 ++ [e]) ++ filter pass r2.
Proof.
  intros limit rest. revert limit. induction rest as [|a rest IH]; intros limit p1 e H.
  - cbn in H. destruct limit; cbn in H; destruct p1; discriminate.
  - cbn [filter] in H. destruct (pass a) eqn:Pa.
    + destruct limit as [|n]; [cbn in H; destruct p1; discriminate|]. cbn [firstn] in H.
      destruct p1 as [|b p1].
      * (* a is the only element of the page *)
        cbn [app] in H. injection H as Ha Hn. subst a.
        exists [], rest. split; [reflexivity|]. split; [reflexivity|]. split; [exact Pa|].
        cbn [app filter]. rewrite Pa. reflexivity.
      * cbn [app] in H. injection H as Ha Hn. subst b.
        destruct (IH n p1 e Hn) as [r1 [r2 [E1 [E2 [E3 E4]]]]].
        exists (a :: r1), r2. split; [rewrite E1; reflexivity|]. split; [cbn [filter]; rewrite Pa, E2; reflexivity|].
        split; [exact E3|]. cbn [filter app]. rewrite Pa. cbn [app] in E4. rewrite E4. reflexivity.
    + destruct (IH limit p1 e H) as [r1 [r2 [E1 [E2 [E3 E4]]]]].
      exists (a :: r1), r2. split; [rewrite E1; reflexivity|]. split; [cbn [filter]; rewrite Pa; exact E2|].
      split; [exact E3|]. cbn [filter]. rewrite Pa. exact E4.
Qed.

Section AscPages.
  Context {E : Type} (key_of : E -> bytes) (pass : E -> bool).
  Variables (tag : N) (raw : bytes) (al : nat) (limit : nat) (db : list E).

  (* one RPC call in ascending order: at most [limit] passing entries of the scan, and the cursor *)
  Definition get_page (cursor : option bytes) : list E * bytes :=
    let page := firstn limit (filter pass (scan key_of tag raw al true cursor db)) in
    (page, last_key key_of page).

  (* the client loop: call again with last_cursor until a page comes back empty *)
  Fixpoint pages (fuel : nat) (cursor : option bytes) : list E :=
    match fuel with
    | O => []
    | S fu =>
        let '(p, lk) := get_page cursor in
        match p with
        | [] => []
        | _ => p ++ pages fu (Some lk)
        end
    end.

  Let prefix := tag :: raw.
  Let P := fun e : E => starts_with (key_of e) prefix.

  (* invariant of the walk: the store is  pre ++ m1 ++ rest ++ r  with [rest] the entries still to be
     scanned (all carrying the prefix), [r] the first entry without the prefix onwards *)
  Lemma pages_from : forall fuel pre m1 rest r cursor,
    sorted_db key_of db -> (1 <= limit)%nat ->
    db = pre ++ m1 ++ rest ++ r ->
    forallb P rest = true -> take_while P r = [] ->
    scan key_of tag raw al true cursor db = rest ->
    (length rest < fuel)%nat ->
    pages fuel cursor = filter pass rest.
  Proof.
    induction fuel as [|fu IH]; intros pre m1 rest r cursor S Hl Hdb Hrest Hr Hscan Hf; [lia|].
    cbn [pages]. unfold get_page. rewrite Hscan.
    destruct (firstn limit (filter pass rest)) as [|a p] eqn:Pg.
    - destruct (filter pass rest) as [|x xs] eqn:F; [reflexivity|].
      destruct limit; [lia | discriminate].
    - destruct (last_key_in key_of p a) as [p1 [e [Ep Ek]]]. rewrite Ek.
      rewrite Ep in Pg. destruct (page_split pass limit rest p1 e Pg) as [r1 [r2 [E1 [E2 [E3 E4]]]]].
      rewrite Ep. rewrite E4. f_equal.
      apply (IH pre (m1 ++ r1 ++ [e]) r2 r (Some (key_of e))); try assumption.
      + rewrite Hdb, E1. repeat rewrite <- app_assoc. reflexivity.
      + rewrite E1, forallb_app in Hrest. apply andb_true_iff in Hrest. destruct Hrest as [_ H2].
        cbn [forallb] in H2. apply andb_true_iff in H2. tauto.
      + unfold scan, query_options. fold prefix. fold P.
        apply (scan_after key_of prefix db pre (m1 ++ r1) e r2 r S).
        * rewrite Hdb, E1. repeat rewrite <- app_assoc. reflexivity.
        * rewrite E1, forallb_app in Hrest. apply andb_true_iff in Hrest. destruct Hrest as [_ H2].
          cbn [forallb] in H2. apply andb_true_iff in H2. tauto.
        * exact Hr.
      + rewrite E1, app_length in Hf. cbn [length] in Hf. lia.
  Qed.

  Lemma leb_lt_trans a b c : bytes_leb a b = true -> blt b c -> bytes_leb a c = true.
  Proof.
    unfold bytes_leb, blt. intros H1 H2. destruct (bytes_cmp a b) eqn:C; try discriminate.
    - apply bytes_cmp_eq in C. subst. rewrite H2. reflexivity.
    - rewrite (bytes_cmp_trans a b c C H2). reflexivity.
  Qed.

  Lemma seek_fwd_suffix from l : sorted_db key_of l -> exists pre, l = pre ++ seek key_of from true l.
  Proof.
    unfold seek. induction l as [|a l IH]; intros S; [exists []; reflexivity|].
    inversion S as [|? ? S' F]; subst. cbn [filter].
    destruct (bytes_leb from (key_of a)) eqn:L.
    - exists []. cbn [app]. f_equal. rewrite Forall_forall in F.
      clear IH S S'. induction l as [|b l IHl]; [reflexivity|]. cbn [filter].
      rewrite (leb_lt_trans from (key_of a) (key_of b) L) by (apply F; left; reflexivity).
      f_equal. apply IHl. intros x Hx. apply F. right. exact Hx.
    - destruct (IH S') as [pre Hpre]. exists (a :: pre). cbn [app]. f_equal. exact Hpre.
  Qed.

  Lemma take_while_split {A} (p : A -> bool) l :
    exists r, l = take_while p l ++ r /\ forallb p (take_while p l) = true /\ take_while p r = [].
  Proof.
    induction l as [|a l IH]; [exists []; repeat split|]. cbn [take_while]. destruct (p a) eqn:Pa.
    - destruct IH as [r [E1 [E2 E3]]]. exists r. cbn [app forallb]. rewrite Pa, E2. repeat split; [f_equal; exact E1 | exact E3].
    - exists (a :: l). cbn [app forallb take_while]. rewrite Pa. repeat split.
  Qed.

  (* following last_cursor page by page, with any limit >= 1, yields every matching passing entry of a
     strictly key-ordered store exactly once, in key order, and then an empty page *)
  Theorem pages_exact :
    sorted_db key_of db -> (1 <= limit)%nat ->
    pages (Datatypes.S (length db)) None = filter pass (scan key_of tag raw al true None db).
  Proof.
    intros Hsorted Hl.
    destruct (seek_fwd_suffix prefix db Hsorted) as [pre Hpre].
    destruct (take_while_split P (seek key_of prefix true db)) as [r [E1 [E2 E3]]].
    assert (Hscan : scan key_of tag raw al true None db = take_while P (seek key_of prefix true db)) by reflexivity.
    apply (pages_from (Datatypes.S (length db)) pre [] (take_while P (seek key_of prefix true db)) r None Hsorted Hl).
    - cbn [app]. rewrite <- E1. exact Hpre.
    - exact E2.
    - exact E3.
    - exact Hscan.
    - rewrite Hpre at 2. rewrite E1 at 2. rewrite !app_length. lia.
  Qed.
End AscPages.
