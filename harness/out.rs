//! Output of the harness: one TSV line per case
//!   id \t tags \t model-expression (Coq term of type val) \t implementation value (Coq val term)
//!      \t oracle verdict ("ok" or "FAIL: ...") \t human-readable description for replay
use std::fmt::Display;
use std::fs::File;
use std::io::{BufWriter, Write};

#[derive(Clone, Debug, PartialEq)]
pub(crate) enum Val {
    N(String),
    L(Vec<Val>),
}

impl Val {
    pub(crate) fn n<T: Display>(x: T) -> Val {
        Val::N(format!("{}", x))
    }
    pub(crate) fn b(x: bool) -> Val {
        Val::N(if x { "1".into() } else { "0".into() })
    }
    pub(crate) fn l(xs: Vec<Val>) -> Val {
        Val::L(xs)
    }
    pub(crate) fn opt(x: Option<Val>) -> Val {
        match x {
            None => Val::L(vec![]),
            Some(v) => Val::L(vec![v]),
        }
    }
    pub(crate) fn to_coq(&self) -> String {
        match self {
            Val::N(s) => format!("(VN {})", s),
            Val::L(xs) => {
                let inner: Vec<String> = xs.iter().map(|x| x.to_coq()).collect();
                format!("(VL [{}])", inner.join(";"))
            }
        }
    }
}

/// Coq list literal from already-rendered elements
pub(crate) fn coq_list(xs: &[String]) -> String {
    format!("[{}]", xs.join(";"))
}

pub(crate) struct Out {
    w: BufWriter<File>,
    pub(crate) count: u64,
    only: Option<String>,
}

impl Out {
    pub(crate) fn create(path: &str) -> Out {
        Out {
            w: BufWriter::new(File::create(path).expect("create VERIF_OUT")),
            count: 0,
            only: std::env::var("VERIF_CASE").ok(),
        }
    }
    pub(crate) fn wanted(&self, id: &str) -> bool {
        self.only.as_ref().map(|o| o == id).unwrap_or(true)
    }
    pub(crate) fn case(
        &mut self,
        id: &str,
        tags: &[&str],
        model_expr: &str,
        impl_val: &Val,
        oracle: Result<(), String>,
        descr: &str,
    ) {
        if !self.wanted(id) {
            return;
        }
        let oracle = match oracle {
            Ok(()) => "ok".to_string(),
            Err(e) => format!("FAIL: {}", e.replace('\t', " ").replace('\n', " ")),
        };
        writeln!(
            self.w,
            "{}\t{}\t{}\t{}\t{}\t{}",
            id,
            tags.join(","),
            model_expr,
            impl_val.to_coq(),
            oracle,
            descr.replace('\t', " ").replace('\n', " ")
        )
        .expect("write case");
        self.count += 1;
    }
    /// a named model term shared by several cases (written as a Coq Definition before the cases that use it)
    pub(crate) fn def(&mut self, name: &str, term: &str) {
        writeln!(self.w, "#DEF\t{}\t{}", name, term).expect("write def");
    }
    /// a free-form statistics line (ignored by the model run, kept for the evidence)
    pub(crate) fn stat(&mut self, key: &str, value: &str) {
        writeln!(self.w, "#STAT\t{}\t{}", key, value).expect("write stat");
    }
    pub(crate) fn finish(mut self) {
        self.w.flush().expect("flush");
    }
}

/// Run a closure, mapping an unwinding panic to None.
pub(crate) fn catch<T>(f: impl FnOnce() -> T) -> Option<T> {
    std::panic::catch_unwind(std::panic::AssertUnwindSafe(f)).ok()
}
